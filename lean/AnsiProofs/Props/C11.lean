import AnsiProofs.Lemmas.Pieces
/-
  Property C11 — the SETTINGS of the pieces returned by the str-like methods (the text of the
  pieces is property C10).

  "Each piece returned by split, rsplit, splitlines, partition, rpartition, strip/lstrip/rstrip,
  removeprefix and removesuffix reports, character by character, exactly the settings of the
  corresponding characters of the original at the piece's true offset in it.  Case conversions (when
  they preserve length) and assign_str keep the settings at every position, assign_str extending the
  last character's settings over added characters and dropping those of removed ones; replace …"
  (the `replace` clause and the longer case of `assign_str` are proved elsewhere).

  Every piece is a slice of the original, so its settings follow from C04 (`getSlice_settings`);
  what is proved here is that the offset the code computes is the piece's TRUE offset:
  1 `strip_settings` (+ `strip_at`, `strip_unchanged`, `strip_wf`),
  2 `removeprefix_settings`, `removesuffix_settings` (+ `_absent`, `_wf`),
  3 `partition_settings` (+ `partition_settings_first`, `rpartition_settings_last`,
    `partition_absent`, `partition_wf`),
  4 `split_settings` (explicit separator; + `split_wf`),
  5 `Layout`, `trueOff` (+ `Layout.piece_at`, `Layout.trueOff_unique`,
    `Layout.trueOff_unique_nonempty`), `splitWs_settings`, `splitlines_settings` (+ `splitlines_wf`),
  6 `case_settings`, `mapText_wf`,
  7 `assignStr_shorter`, `assignStr_shorter_closed`, `assignStr_wf_shorter`.
  All statements hold for ALL values and arguments; none had to be weakened.
  Helper lemmas: `AnsiProofs/Lemmas/Pieces.lean` (namespace `PiecesL`).
-/

open PiecesL

namespace C11

/-! ## 1 — strip / lstrip / rstrip -/

/-- `_strip(chars, inplace, do_lstrip, do_rstrip)`: character `k` of the result reports the settings
    of character `off + k` of the receiver, `off` being the number of leading characters of the
    strip set (0 for `rstrip`) -/
theorem strip_settings (x : AStr) (h : WF x) (chars : Option Str) (doL doR ip : Bool) :
    let y := x.stripGen chars doL doR ip
    let off := if doL then
      (x.s.takeWhile (fun c => (chars.getD Gen.whitespaceChars).contains c)).length else 0
    ∀ k < y.len, act y k = act x (off + k) :=
  fun _ hk => strip_act x h chars doL doR ip hk

/-- `off` is the true offset: the text of the result sits there in the receiver's text -/
theorem strip_at (x : AStr) (chars : Option Str) (doL doR ip : Bool) :
    let y := x.stripGen chars doL doR ip
    let off := if doL then
      (x.s.takeWhile (fun c => (chars.getD Gen.whitespaceChars).contains c)).length else 0
    pySlice x.s off (off + y.len) = y.s :=
  strip_text_at x chars doL doR ip

/-- `inplace=True` and nothing to strip: the receiver itself is returned, unchanged -/
theorem strip_unchanged (x : AStr) (chars : Option Str) (doL doR : Bool)
    (hl : (x.stripGen chars doL doR true).len = x.len) : x.stripGen chars doL doR true = x :=
  strip_inplace_unchanged x chars doL doR hl

theorem strip_wf (x : AStr) (h : WF x) (chars : Option Str) (doL doR ip : Bool) :
    WF (x.stripGen chars doL doR ip) :=
  PiecesL.strip_wf x h chars doL doR ip

/-! ## 2 — removeprefix / removesuffix -/

theorem removeprefix_settings (x : AStr) (h : WF x) (p : Str) (hp : Py.startsWith x.s p = true) :
    ∀ k < (x.removeprefix p).len, act (x.removeprefix p) k = act x (p.length + k) :=
  fun _ hk => removeprefix_act x h p hp hk

/-- the prefix is absent: the receiver is returned unchanged -/
theorem removeprefix_absent (x : AStr) (p : Str) (hp : Py.startsWith x.s p = false) :
    x.removeprefix p = x :=
  PiecesL.removeprefix_absent x p hp

theorem removesuffix_settings (x : AStr) (h : WF x) (p : Str) :
    ∀ k < (x.removesuffix p).len, act (x.removesuffix p) k = act x k :=
  fun _ hk => removesuffix_act x h p hk

/-- the suffix is empty or absent: the receiver is returned unchanged -/
theorem removesuffix_absent (x : AStr) (p : Str) (hp : p = [] ∨ Py.endsWith x.s p = false) :
    x.removesuffix p = x :=
  PiecesL.removesuffix_absent x p hp

theorem removeprefix_wf (x : AStr) (h : WF x) (p : Str) : WF (x.removeprefix p) :=
  PiecesL.removeprefix_wf x h p

theorem removesuffix_wf (x : AStr) (h : WF x) (p : Str) : WF (x.removesuffix p) :=
  PiecesL.removesuffix_wf x h p

/-! ## 3 — partition / rpartition -/

/-- the separator is found at `idx`: the three pieces report the settings of the receiver at the
    offsets `0`, `idx`, `idx + len(sep)`; their lengths are `idx`, `len(sep)` and the rest -/
theorem partition_settings (x : AStr) (h : WF x) (sep : Str) (rev : Bool) (idx : Nat)
    (hf : (if rev then Py.rfind x.s sep else Py.find x.s sep 0) = some idx) :
    let r := x.partitionGen sep rev
    (r.1.len = idx ∧ r.2.1.len = sep.length ∧ r.2.2.len = x.len - (idx + sep.length)) ∧
    (∀ k < r.1.len, act r.1 k = act x k) ∧
    (∀ k < r.2.1.len, act r.2.1 k = act x (idx + k)) ∧
    (∀ k < r.2.2.len, act r.2.2 k = act x (idx + sep.length + k)) := by
  intro r
  have hr : r = _ := partition_eq x sep rev idx hf
  have hocc : sep.isPrefixOf (x.s.drop idx) = true ∧ idx ≤ x.s.length := by
    cases rev
    · have := (StrLikeL.find_some_iff _ _ _ _).mp (by simpa using hf)
      exact ⟨this.2.2.1, this.1⟩
    · have := (StrLikeL.rfind_some_iff _ _ _).mp (by simpa using hf)
      exact ⟨this.2.1, this.1⟩
  have hle := occ_le x.s sep idx hocc.1 hocc.2
  have hx : x.len = x.s.length := rfl
  rw [hr]
  refine ⟨⟨?_, ?_, ?_⟩, ?_, ?_, ?_⟩
  · show (x.getSlice _ _).len = _
    rw [getSlice_nat_len]; omega
  · show (x.getSlice _ _).len = _
    rw [getSlice_nat_len]; omega
  · show (x.getSlice _ _).len = _
    rw [getSlice_len, StrLikeL.sliceIdx_ofNat]
    simp only [sliceIdx]; omega
  · intro k hk
    have := getSlice_nat_act x h 0 idx hk
    simpa using this
  · intro k hk
    exact getSlice_nat_act x h idx (idx + sep.length) hk
  · intro k hk
    exact getSlice_from_act x h (idx + sep.length) hk

/-- `partition`: `idx` is the FIRST occurrence of the separator -/
theorem partition_settings_first (x : AStr) (h : WF x) (sep : Str) (idx : Nat)
    (hle : idx ≤ x.len) (hocc : sep.isPrefixOf (x.s.drop idx) = true)
    (hfirst : ∀ j < idx, sep.isPrefixOf (x.s.drop j) = false) :
    let r := x.partitionGen sep false
    (∀ k < r.1.len, act r.1 k = act x k) ∧
    (∀ k < r.2.1.len, act r.2.1 k = act x (idx + k)) ∧
    (∀ k < r.2.2.len, act r.2.2 k = act x (idx + sep.length + k)) :=
  (partition_settings x h sep false idx
    ((StrLikeL.find_some_iff _ _ _ _).mpr ⟨hle, Nat.zero_le _, hocc, fun j hj _ => hfirst j hj⟩)).2

/-- `rpartition`: `idx` is the LAST occurrence of the separator -/
theorem rpartition_settings_last (x : AStr) (h : WF x) (sep : Str) (idx : Nat)
    (hle : idx ≤ x.len) (hocc : sep.isPrefixOf (x.s.drop idx) = true)
    (hlast : ∀ j, idx < j → j ≤ x.len → sep.isPrefixOf (x.s.drop j) = false) :
    let r := x.partitionGen sep true
    (∀ k < r.1.len, act r.1 k = act x k) ∧
    (∀ k < r.2.1.len, act r.2.1 k = act x (idx + k)) ∧
    (∀ k < r.2.2.len, act r.2.2 k = act x (idx + sep.length + k)) :=
  (partition_settings x h sep true idx ((StrLikeL.rfind_some_iff _ _ _).mpr ⟨hle, hocc, hlast⟩)).2

/-- the separator is absent: the first piece is the receiver itself, the others are empty -/
theorem partition_absent (x : AStr) (sep : Str) (rev : Bool)
    (hf : (if rev then Py.rfind x.s sep else Py.find x.s sep 0) = none) :
    x.partitionGen sep rev = (x, {}, {}) :=
  StrLikeL.partitionGen_none x sep rev hf

theorem partition_wf (x : AStr) (h : WF x) (sep : Str) (rev : Bool) :
    WF (x.partitionGen sep rev).1 ∧ WF (x.partitionGen sep rev).2.1 ∧
      WF (x.partitionGen sep rev).2.2 := by
  cases hf : (if rev then Py.rfind x.s sep else Py.find x.s sep 0) with
  | none => rw [partition_absent x sep rev hf]; exact ⟨h, wf_default, wf_default⟩
  | some idx =>
    rw [partition_eq x sep rev idx hf]
    exact ⟨C04.getSlice_wf x h _ _, C04.getSlice_wf x h _ _, C04.getSlice_wf x h _ _⟩

/-! ## 4 — split / rsplit with an explicit separator -/

/-- the `j`-th piece reports the settings of the receiver at its true offset: the pieces and the
    separators between them are laid out contiguously (`C10.split_join`), so that offset is the
    total length of the earlier pieces plus one separator each -/
theorem split_settings (x : AStr) (h : WF x) (sep : Str) (hsep : sep ≠ []) (m : Int) (r : Bool)
    (ps : List AStr) (hps : x.splitGen (some sep) m r = .ok ps) (j : Nat) (p : AStr)
    (hj : ps[j]? = some p) :
    ∀ k < p.len, act p k = act x (((ps.take j).map (fun q => q.len + sep.length)).sum + k) :=
  fun _ hk => split_act x h sep hsep m r ps hps j p hj hk

/-- every piece of `split`/`rsplit` (explicit separator or whitespace) is well formed -/
theorem split_wf (x : AStr) (h : WF x) (sep : Option Str) (m : Int) (r : Bool) (ps : List AStr)
    (hps : x.splitGen sep m r = .ok ps) : ∀ p ∈ ps, WF p :=
  PiecesL.split_wf x h sep m r ps hps

/-! ## 5 — whitespace splitting and `splitlines`: layouts and true offsets -/

/-- `g₀ ++ p₀ ++ g₁ ++ p₁ ++ … ++ gₙ` -/
def interleave : List Str → List Str → Str
  | g :: gs, p :: ps => g ++ p ++ interleave gs ps
  | g :: _, [] => g
  | [], _ => []

/-- `Layout sepc s gaps pieces`: the text `s` is `g₀ ++ p₀ ++ g₁ ++ p₁ ++ … ++ gₙ` and every gap
    consists of separator characters only.  This says where the pieces ARE, without `find`. -/
structure Layout (sepc : Char → Bool) (s : Str) (gaps pieces : List Str) : Prop where
  count : gaps.length = pieces.length + 1
  text  : s = interleave gaps pieces
  sep   : ∀ g ∈ gaps, ∀ c ∈ g, sepc c = true

/-- the TRUE offset of piece `j` of a layout: everything that is laid out before it, i.e. the gaps
    `g₀ … gⱼ` and the pieces `p₀ … pⱼ₋₁` -/
def trueOff (gaps pieces : List Str) (j : Nat) : Nat :=
  ((gaps.take (j + 1)).map List.length).sum + ((pieces.take j).map List.length).sum

private theorem trueOff_zero (g : Str) (gs : List Str) (ps : List Str) :
    trueOff (g :: gs) ps 0 = g.length := by
  simp [trueOff]

private theorem trueOff_succ (g p : Str) (gs ps : List Str) (j : Nat) :
    trueOff (g :: gs) (p :: ps) (j + 1) = g.length + p.length + trueOff gs ps j := by
  simp [trueOff]; omega

/-- the piece really sits at its true offset -/
theorem Layout.piece_at {sepc : Char → Bool} {s : Str} {gaps pieces : List Str}
    (h : Layout sepc s gaps pieces) (j : Nat) (p : Str) (hj : pieces[j]? = some p) :
    pySlice s (trueOff gaps pieces j) (trueOff gaps pieces j + p.length) = p := by
  obtain ⟨hc, ht, -⟩ := h
  subst ht
  unfold pySlice
  induction pieces generalizing gaps j with
  | nil => simp at hj
  | cons q ps ih =>
    cases gaps with
    | nil => simp at hc
    | cons g gs =>
      have hc' : gs.length = ps.length + 1 := by simpa using hc
      cases j with
      | zero =>
        simp only [List.getElem?_cons_zero, Option.some.injEq] at hj
        subst hj
        rw [trueOff_zero, interleave, List.take_left' (by simp), List.drop_left' rfl]
      | succ j =>
        simp only [List.getElem?_cons_succ] at hj
        have e : g.length + q.length = (g ++ q).length := by simp
        rw [trueOff_succ, interleave, e, Nat.add_assoc, List.take_length_add_append,
          List.drop_length_add_append]
        exact ih j hj hc'

/-- The true offset of a NON-EMPTY piece does not depend on the layout chosen: if every piece is
    empty or starts with a non-separator character, any two layouts of `s` with the same pieces
    give every non-empty piece the same offset.  (Empty pieces have no determined position:
    `"a\n\nb"` is `a ++ "\n" ++ "" ++ "\n" ++ b` and also `a ++ "\n\n" ++ "" ++ "" ++ b`.) -/
theorem Layout.trueOff_unique {sepc : Char → Bool} {s : Str} {gaps gaps' pieces : List Str}
    (h : Layout sepc s gaps pieces) (h' : Layout sepc s gaps' pieces)
    (hp : ∀ p ∈ pieces, ∀ c ∈ p.head?, sepc c = false) (j : Nat) (p : Str)
    (hj : pieces[j]? = some p) (hne : p ≠ []) : trueOff gaps pieces j = trueOff gaps' pieces j := by
  have aux : ∀ (pieces gaps gaps' : List Str) (a a' : Str), (∀ c ∈ a, sepc c = true) →
      (∀ c ∈ a', sepc c = true) → gaps.length = pieces.length + 1 →
      gaps'.length = pieces.length + 1 → (∀ g ∈ gaps, ∀ c ∈ g, sepc c = true) →
      (∀ g ∈ gaps', ∀ c ∈ g, sepc c = true) →
      a ++ interleave gaps pieces = a' ++ interleave gaps' pieces →
      (∀ p ∈ pieces, ∀ c ∈ p.head?, sepc c = false) →
      ∀ (j : Nat) (p : Str), pieces[j]? = some p → p ≠ [] →
        a.length + trueOff gaps pieces j = a'.length + trueOff gaps' pieces j := by
    intro pieces
    induction pieces with
    | nil => intro _ _ _ _ _ _ _ _ _ _ _ _ j p hj; simp at hj
    | cons q ps ih =>
      intro gaps gaps' a a' ha ha' hc hc' hg hg' heq hp j p hj hne
      cases gaps with
      | nil => simp at hc
      | cons g gs =>
      cases gaps' with
      | nil => simp at hc'
      | cons g' gs' =>
      have hcs : gs.length = ps.length + 1 := by simpa using hc
      have hcs' : gs'.length = ps.length + 1 := by simpa using hc'
      have hag : ∀ c ∈ a ++ g, sepc c = true := by
        intro c hc
        rcases List.mem_append.mp hc with h1 | h1
        · exact ha c h1
        · exact hg g (by simp) c h1
      have hag' : ∀ c ∈ a' ++ g', sepc c = true := by
        intro c hc
        rcases List.mem_append.mp hc with h1 | h1
        · exact ha' c h1
        · exact hg' g' (by simp) c h1
      have hgs : ∀ g ∈ gs, ∀ c ∈ g, sepc c = true := fun g0 h0 => hg g0 (by simp [h0])
      have hgs' : ∀ g ∈ gs', ∀ c ∈ g, sepc c = true := fun g0 h0 => hg' g0 (by simp [h0])
      have hps : ∀ p ∈ ps, ∀ c ∈ p.head?, sepc c = false := fun p0 h0 => hp p0 (by simp [h0])
      simp only [interleave] at heq
      cases q with
      | nil =>
        cases j with
        | zero => simp at hj; exact absurd hj hne
        | succ j =>
          simp only [List.getElem?_cons_succ] at hj
          have := ih gs gs' (a ++ g) (a' ++ g') hag hag' hcs hcs' hgs hgs'
            (by simpa using heq) hps j p hj hne
          rw [trueOff_succ, trueOff_succ]
          simp only [List.length_append, List.length_nil] at this ⊢
          omega
      | cons c t =>
        have hcsep : sepc c = false := hp (c :: t) (by simp) c (by simp)
        have heq' : (a ++ g) ++ c :: (t ++ interleave gs ps) =
            (a' ++ g') ++ c :: (t ++ interleave gs' ps) := by simpa using heq
        obtain ⟨e1, e2⟩ := sep_prefix_unique hag hag' hcsep hcsep heq'
        have e1l := congrArg List.length e1
        simp only [List.length_append] at e1l
        cases j with
        | zero => rw [trueOff_zero, trueOff_zero]; omega
        | succ j =>
          simp only [List.getElem?_cons_succ] at hj
          have e3 : interleave gs ps = interleave gs' ps := by
            simpa using e2
          have := ih gs gs' [] [] (by simp) (by simp) hcs hcs' hgs hgs' (by simpa using e3) hps j p hj hne
          rw [trueOff_succ, trueOff_succ]
          simp only [List.length_nil, Nat.zero_add] at this
          omega
  have := aux pieces gaps gaps' [] [] (by simp) (by simp) h.count h'.count h.sep h'.sep
    (by rw [List.nil_append, List.nil_append, ← h.text, ← h'.text]) hp j p hj hne
  simpa using this


/-- The same for whitespace splitting, where every piece is non-empty and starts with a
    non-separator character or has an empty gap before it (the unsplit rest of `rsplit(None, m)`):
    two such layouts of `s` with the same pieces give every piece the same offset. -/
theorem Layout.trueOff_unique_nonempty {sepc : Char → Bool} {s : Str} {gaps gaps' pieces : List Str}
    (h : Layout sepc s gaps pieces) (h' : Layout sepc s gaps' pieces)
    (hne : ∀ p ∈ pieces, p ≠ [])
    (hp : ∀ (j : Nat) (p : Str), pieces[j]? = some p →
      (∀ c ∈ p.head?, sepc c = false) ∨ gaps[j]? = some [])
    (hp' : ∀ (j : Nat) (p : Str), pieces[j]? = some p →
      (∀ c ∈ p.head?, sepc c = false) ∨ gaps'[j]? = some [])
    (j : Nat) (hj : j < pieces.length) : trueOff gaps pieces j = trueOff gaps' pieces j := by
  obtain ⟨hc, ht, hg⟩ := h
  obtain ⟨hc', ht', hg'⟩ := h'
  rw [ht] at ht'
  clear ht
  induction pieces generalizing gaps gaps' j with
  | nil => simp at hj
  | cons q ps ih =>
    cases gaps with
    | nil => simp at hc
    | cons g gs =>
    cases gaps' with
    | nil => simp at hc'
    | cons g' gs' =>
    simp only [interleave] at ht'
    have hq : q ≠ [] := hne q (by simp)
    have key : g = g' ∧ interleave gs ps = interleave gs' ps := by
      cases q with
      | nil => exact absurd rfl hq
      | cons c t =>
        by_cases hcs : sepc c = false
        · have e : g ++ c :: (t ++ interleave gs ps) = g' ++ c :: (t ++ interleave gs' ps) := by
            simpa using ht'
          obtain ⟨e1, e2⟩ := sep_prefix_unique (hg g (by simp)) (hg' g' (by simp)) hcs hcs e
          exact ⟨e1, by simpa using e2⟩
        · have h1 : g = [] := by
            rcases hp 0 (c :: t) rfl with h1 | h1
            · exact absurd (h1 c (by simp)) hcs
            · simpa using h1
          have h2 : g' = [] := by
            rcases hp' 0 (c :: t) rfl with h1 | h1
            · exact absurd (h1 c (by simp)) hcs
            · simpa using h1
          subst h1 h2
          exact ⟨rfl, by simpa using ht'⟩
    cases j with
    | zero => rw [trueOff_zero, trueOff_zero, key.1]
    | succ j =>
      rw [trueOff_succ, trueOff_succ, key.1]
      congr 1
      exact ih (gaps := gs) (gaps' := gs') (fun p hp0 => hne p (by simp [hp0]))
        (fun j p hjp => by simpa using hp (j + 1) p (by simpa using hjp))
        (fun j p hjp => by simpa using hp' (j + 1) p (by simpa using hjp))
        j (by simpa using hj) (by simpa using hc) (fun g0 h0 => hg g0 (by simp [h0]))
        (by simpa using hc') key.2 (fun g0 h0 => hg' g0 (by simp [h0]))
/-! ### from the (gap, piece) pairs of the lemma file to `Layout` / `trueOff` -/

private theorem interleave_pairs (pairs : List (Str × Str)) (tail : Str) :
    interleave (pairs.map (·.1) ++ [tail]) (pairs.map (·.2)) = catL pairs ++ tail := by
  induction pairs with
  | nil => rfl
  | cons gp rest ih =>
    rw [catL_cons]
    simp only [List.map_cons, List.cons_append, interleave, ih, List.append_assoc]

private theorem layout_of_pairs {sepc : Char → Bool} {s : Str} {pairs : List (Str × Str)} {tail : Str}
    (hs : s = catL pairs ++ tail) (ht : ∀ c ∈ tail, sepc c = true)
    (hg : ∀ gp ∈ pairs, ∀ c ∈ gp.1, sepc c = true) :
    Layout sepc s (pairs.map (·.1) ++ [tail]) (pairs.map (·.2)) where
  count := by simp
  text := by rw [interleave_pairs]; exact hs
  sep := by
    intro g hg' c hc
    rcases List.mem_append.mp hg' with h1 | h1
    · obtain ⟨gp, hgp, rfl⟩ := List.mem_map.mp h1
      exact hg gp hgp c hc
    · simp only [List.mem_singleton] at h1
      subst h1
      exact ht c hc

private theorem trueOff_of_pairs (pairs : List (Str × Str)) (tail : Str) (j : Nat) (hj : j < pairs.length) :
    trueOff (pairs.map (·.1) ++ [tail]) (pairs.map (·.2)) j =
      (((pairs.map (·.1)).take (j + 1)).map List.length).sum +
        (((pairs.map (·.2)).take j).map List.length).sum := by
  unfold trueOff
  rw [List.take_append_of_le_length (by simp; omega)]

/-- the piece cut out at the true offset of the `j`-th (gap, piece) pair -/
private theorem piece_of_pairs (x : AStr) (h : WF x) (pairs : List (Str × Str)) (tail : Str) (j : Nat)
    (gp : Str × Str) (hgp : pairs[j]? = some gp) (n : Nat) {k : Nat}
    (hk : k < (x.getSlice
      (some ((0 + ((((pairs.map (·.1)).take (j + 1)).map List.length).sum +
        (((pairs.map (·.2)).take j).map List.length).sum) : Nat) : Int))
      (some ((0 + ((((pairs.map (·.1)).take (j + 1)).map List.length).sum +
        (((pairs.map (·.2)).take j).map List.length).sum) + n : Nat) : Int))).len) :
    act (x.getSlice
      (some ((0 + ((((pairs.map (·.1)).take (j + 1)).map List.length).sum +
        (((pairs.map (·.2)).take j).map List.length).sum) : Nat) : Int))
      (some ((0 + ((((pairs.map (·.1)).take (j + 1)).map List.length).sum +
        (((pairs.map (·.2)).take j).map List.length).sum) + n : Nat) : Int))) k =
      act x (trueOff (pairs.map (·.1) ++ [tail]) (pairs.map (·.2)) j + k) := by
  have hj : j < pairs.length := by
    rcases Nat.lt_or_ge j pairs.length with h1 | h1
    · exact h1
    · rw [List.getElem?_eq_none h1] at hgp; cases hgp
  rw [getSlice_nat_act x h _ _ hk, trueOff_of_pairs pairs tail j hj, Nat.zero_add]

/-- `split(None, m)` / `rsplit(None, m)`: the text is laid out as `g₀ p₀ g₁ p₁ … gₙ` with the
    pieces `pⱼ` and gaps `gⱼ` of whitespace only; every piece is non-empty and starts with a
    non-whitespace character — or has an empty gap before it (this happens only for the unsplit rest
    of `rsplit(None, m)`, which is a prefix of the text and may begin with whitespace); and the
    `j`-th piece reports, character by character, the settings of the receiver at its TRUE offset
    `|g₀| + |p₀| + … + |gⱼ|` -/
theorem splitWs_settings (x : AStr) (h : WF x) (m : Int) (r : Bool) (ps : List AStr)
    (hps : x.splitGen none m r = .ok ps) :
    ∃ gaps : List Str, Layout Py.isSpace x.s gaps (ps.map (·.s)) ∧
      ∀ (j : Nat) (p : AStr), ps[j]? = some p →
        p.len ≠ 0 ∧ ((∀ c ∈ p.s.head?, Py.isSpace c = false) ∨ gaps[j]? = some []) ∧
        ∀ k < p.len, act p k = act x (trueOff gaps (ps.map (·.s)) j + k) := by
  obtain ⟨pairs, tail, hs, htail, hpairs, hstrs, hoffs⟩ := ws_layout x.s m r
  have htext : ps.map (·.s) = pairs.map (·.2) := by
    rw [C10.splitWs_text x m r ps hps, hstrs]
  simp only [AStr.splitGen, Except.ok.injEq] at hps
  rw [hstrs, hoffs] at hps
  subst hps
  refine ⟨pairs.map (·.1) ++ [tail], ?_, ?_⟩
  · rw [htext]
    exact layout_of_pairs hs htail (fun gp hgp => (hpairs gp hgp).2.1)
  · intro j p hj
    rw [htext]
    rw [piecesAt_getElem?, offsL_getElem?] at hj
    cases hgp : pairs[j]? with
    | none => rw [hgp] at hj; cases hj
    | some gp =>
      rw [hgp] at hj
      simp only [Option.map_some, Option.some.injEq] at hj
      have hmem : gp ∈ pairs := List.mem_of_getElem? hgp
      have hjl : j < pairs.length := by
        rcases Nat.lt_or_ge j pairs.length with h1 | h1
        · exact h1
        · rw [List.getElem?_eq_none h1] at hgp; cases hgp
      have hs_p : p.s = gp.2 := by
        have := congrArg (fun l => l[j]?) htext
        simp only [List.getElem?_map, piecesAt_getElem?, offsL_getElem?, hgp, Option.map_some,
          Option.some.injEq] at this
        rw [← hj]; exact this
      refine ⟨?_, ?_, ?_⟩
      · intro h0
        have : p.s = [] := List.eq_nil_of_length_eq_zero h0
        exact (hpairs gp hmem).1 (by rw [← hs_p]; exact this)
      · rcases (hpairs gp hmem).2.2 with h1 | h1
        · exact Or.inl (by rw [hs_p]; exact h1)
        · right
          rw [List.getElem?_append_left (by simpa using hjl), List.getElem?_map, hgp]
          simp [h1]
      · intro k hk
        subst hj
        exact piece_of_pairs x h pairs tail j gp hgp gp.2.length hk

/-- the separator characters of `splitlines(keepends)`: the line breaks — or nothing at all when
    the line breaks are kept in the pieces -/
def lineSep (keepends : Bool) (c : Char) : Bool := !keepends && Py.isLineBreak c

theorem lineSep_eq : lineSep = PiecesL.lineSep := rfl

/-- `splitlines(keepends)`: the text is laid out as `g₀ p₀ g₁ p₁ … gₙ` with the lines `pⱼ` and
    gaps consisting of line-break characters only (`\r\n` included; all gaps are empty when
    `keepends`).  Every NON-EMPTY line reports, character by character, the settings of the receiver
    at its TRUE offset in this layout; an EMPTY line (which the code may locate early, see the
    example `"a\n\nb"` below) has no characters and an empty table. -/
theorem splitlines_settings (x : AStr) (h : WF x) (keepends : Bool) :
    ∃ gaps : List Str, Layout (lineSep keepends) x.s gaps ((x.splitlines keepends).map (·.s)) ∧
      (∀ t ∈ (x.splitlines keepends).map (·.s), ∀ c ∈ t, lineSep keepends c = false) ∧
      ∀ (j : Nat) (p : AStr), (x.splitlines keepends)[j]? = some p →
        (∀ k < p.len, act p k = act x (trueOff gaps ((x.splitlines keepends).map (·.s)) j + k)) ∧
        (p.len = 0 → p = { s := [], fmts := [] }) := by
  obtain ⟨pairs, tail, hs, htail, hpairs, hstrs, hoffs⟩ := lines_layout x.s keepends
  have htext : (x.splitlines keepends).map (·.s) = pairs.map (·.2) := by
    rw [C10.splitlines_text, hstrs]
  rw [htext]
  refine ⟨pairs.map (·.1) ++ [tail], ?_, ?_, ?_⟩
  · exact layout_of_pairs hs htail (fun gp hgp => (hpairs gp hgp).1)
  · intro t ht
    obtain ⟨gp, hgp, rfl⟩ := List.mem_map.mp ht
    exact (hpairs gp hgp).2
  · intro j p hj
    unfold AStr.splitlines at hj
    rw [hstrs, piecesAt_getElem?] at hj
    cases hol : (AStr.pieceOffsets x.s 0 (pairs.map (·.2)) 0)[j]? with
    | none => rw [hol] at hj; cases hj
    | some ol =>
      rw [hol] at hj
      simp only [Option.map_some, Option.some.injEq] at hj
      subst hj
      refine ⟨?_, fun h0 => getSlice_of_len_zero x _ _ h0⟩
      intro k hk
      have hjl : j < pairs.length := by
        have := (List.getElem?_eq_some_iff.mp hol).1
        rw [pieceOffsets_length] at this
        simpa using this
      have hgp : pairs[j]? = some pairs[j] := List.getElem?_eq_getElem hjl
      have hT := offsL_getElem? pairs 0 j
      rw [hgp, Option.map_some] at hT
      obtain ⟨e, he, -, he3⟩ := hoffs j _ _ hT
      rw [hol, Option.some.injEq] at he
      subst he
      have hn : pairs[j].2.length ≠ 0 := by
        intro h0
        rw [getSlice_nat_len] at hk
        simp only [h0, Nat.add_zero] at hk
        omega
      have he := he3 hn
      simp only at he hk ⊢
      rw [he] at hk ⊢
      exact piece_of_pairs x h pairs tail j _ hgp _ hk


/-- every line of `splitlines` is well formed -/
theorem splitlines_wf (x : AStr) (h : WF x) (keepends : Bool) : ∀ p ∈ x.splitlines keepends, WF p :=
  PiecesL.splitlines_wf x h keepends

/-! ## 6 — case conversions -/

/-- a case conversion that preserves the length keeps the settings at every position (the table is
    left alone; without the length hypothesis the equation still holds, but the positions no longer
    correspond to the same characters — see the `ß` example below) -/
theorem case_settings (x : AStr) (t : Str) (_ht : t.length = x.len) :
    ∀ k, act (x.mapText t) k = act x k :=
  fun _ => rfl

theorem mapText_wf (x : AStr) (h : WF x) (t : Str) (ht : t.length = x.len) : WF (x.mapText t) :=
  PiecesL.mapText_wf x h t ht

/-! ## 7 — `assign_str` with a shorter text -/

/-- the remaining positions keep their settings -/
theorem assignStr_shorter (x : AStr) (h : WF x) (t : Str) (ht : t.length < x.len) :
    ∀ k < t.length, act (x.assignStr t) k = act x k := by
  intro k hk
  rw [assignStr_shorter_eq x t ht]
  show act (x.getSlice none (some (t.length : Int))) k = act x k
  exact getSlice_to_act x h _ (by rw [assignStr_shorter_slice_len x t ht]; exact hk)

/-- the settings of the removed characters are dropped: nothing is active from the new end on -/
theorem assignStr_shorter_closed (x : AStr) (h : WF x) (t : Str) (ht : t.length < x.len) :
    ∀ j ≥ t.length, act (x.assignStr t) j = [] := by
  intro j hj
  rw [assignStr_shorter_eq x t ht]
  show act (x.getSlice none (some (t.length : Int))) j = []
  rcases Nat.eq_zero_or_pos t.length with h0 | h0
  · rw [getSlice_of_len_zero x _ _ (by rw [assignStr_shorter_slice_len x t ht]; exact h0)]
    simp [act, active, activeFrom]
  · have e : x.getSlice none (some (t.length : Int)) = x.getRange 0 t.length := by
      unfold AStr.getSlice
      rw [StrLikeL.sliceIdx_ofNat, Nat.min_eq_left (by omega)]
      rfl
    rw [e]
    exact C04.getRange_closed x h h0 (by omega) j (by omega)

theorem assignStr_wf_shorter (x : AStr) (h : WF x) (t : Str) (ht : t.length < x.len) :
    WF (x.assignStr t) := by
  rw [assignStr_shorter_eq x t ht]
  exact PiecesL.mapText_wf _ (C04.getSlice_wf x h _ _) t (assignStr_shorter_slice_len x t ht).symm

/-! ## Non-vacuity: non-uniformly formatted values -/

section Examples

def red : Setting := ⟨1, "31".toList⟩
def blue : Setting := ⟨2, "34".toList⟩

/-- `"xabbbb"` with red on `[0, 3)`: the red run ends INSIDE the run of `b`s -/
def exS : AStr :=
  { s := "xabbbb".toList, fmts := [(0, { add := [red] }), (3, { rem := [red] })] }

theorem exS_wf : WF exS := wf_run _ 0 3 red (by decide) (by decide)

/-- `"  ab "` with red on `[1, 3)` (one blank and the `a`) -/
def exT : AStr :=
  { s := "  ab ".toList, fmts := [(1, { add := [red] }), (3, { rem := [red] })] }

theorem exT_wf : WF exT := wf_run _ 1 3 red (by decide) (by decide)

/-- `" a  b c "` with red on `[0, 5)` (up to and including the `b`) -/
def exW : AStr :=
  { s := " a  b c ".toList, fmts := [(0, { add := [red] }), (5, { rem := [red] })] }

theorem exW_wf : WF exW := wf_run _ 0 5 red (by decide) (by decide)

/-- `"a\r\n\nb"` with red on `[0, 4)` (everything but the `b`) -/
def exL : AStr :=
  { s := "a\r\n\nb".toList, fmts := [(0, { add := [red] }), (4, { rem := [red] })] }

theorem exL_wf : WF exL := wf_run _ 0 4 red (by decide) (by decide)

/-! strip -/
example : (exT.stripGen none true true false).s = "ab".toList ∧
    act (exT.stripGen none true true false) 0 = [red] ∧
    act (exT.stripGen none true true false) 1 = [] := by decide
example : act (exT.stripGen none true true false) 1 = act exT (2 + 1) :=
  strip_settings exT exT_wf none true true false 1 (by decide)
/-- `rstrip` only: offset 0, the leading blanks stay (the second one is red) -/
example : (exT.stripGen none false true false).s = "  ab".toList ∧
    act (exT.stripGen none false true false) 0 = [] ∧
    act (exT.stripGen none false true false) 1 = [red] := by decide
/-- hypothesis of `strip_unchanged` is satisfiable (nothing to strip, `inplace`) -/
example : (exS.stripGen none true true true).len = exS.len ∧ exS.stripGen none true true true = exS := by
  decide

/-! removeprefix / removesuffix -/
example : Py.startsWith exS.s "xa".toList = true := by decide
example : (exS.removeprefix "xa".toList).s = "bbbb".toList ∧
    act (exS.removeprefix "xa".toList) 0 = [red] ∧ act (exS.removeprefix "xa".toList) 1 = [] := by
  decide
example : act (exS.removeprefix "xa".toList) 1 = act exS (2 + 1) :=
  removeprefix_settings exS exS_wf "xa".toList (by decide) 1 (by decide)
example : Py.startsWith exS.s "ab".toList = false ∧ exS.removeprefix "ab".toList = exS := by decide
example : Py.endsWith exS.s "ab".toList = false ∧ exS.removesuffix "ab".toList = exS := by decide
example : (exS.removesuffix "bb".toList).s = "xabb".toList ∧
    act (exS.removesuffix "bb".toList) 2 = [red] ∧ act (exS.removesuffix "bb".toList) 3 = [] := by
  decide

/-! partition / rpartition: `"x" | "ab" | "bbb"`; the last piece starts unstyled -/
example : Py.find exS.s "ab".toList 0 = some 1 ∧ Py.rfind exS.s "b".toList = some 5 := by decide
example : (exS.partitionGen "ab".toList false).2.2.s = "bbb".toList ∧
    act (exS.partitionGen "ab".toList false).1 0 = [red] ∧
    act (exS.partitionGen "ab".toList false).2.1 1 = [red] ∧
    act (exS.partitionGen "ab".toList false).2.2 0 = [] := by decide
example : act (exS.partitionGen "ab".toList false).2.2 0 = act exS (1 + 2 + 0) :=
  (partition_settings exS exS_wf "ab".toList false 1 (by decide)).2.2.2 0 (by decide)
/-- the hypotheses of `partition_settings_first` / `rpartition_settings_last` are satisfiable -/
example : act (exS.partitionGen "ab".toList false).2.2 0 = act exS (1 + 2 + 0) :=
  (partition_settings_first exS exS_wf "ab".toList 1 (by decide) (by decide) (by decide)).2.2 0
    (by decide)
example : act (exS.partitionGen "b".toList true).1 3 = act exS 3 :=
  (rpartition_settings_last exS exS_wf "b".toList 5 (by decide) (by decide) (fun j h1 h2 => by
    have : j = 6 := by
      have : exS.len = 6 := by decide
      omega
    subst this
    decide)).1 3 (by decide)
example : act (exS.partitionGen "b".toList true).1 2 = [red] ∧
    act (exS.partitionGen "b".toList true).1 3 = [] ∧
    act (exS.partitionGen "b".toList true).2.1 0 = [] := by decide
example : Py.find exS.s "q".toList 0 = none ∧ exS.partitionGen "q".toList false = (exS, {}, {}) := by
  decide

/-! split at `"ab"`: the pieces are `"x"` (offset 0) and `"bbb"` (offset 3 = 1 + 2); `"bbb"` also
    occurs at offset 2, where red is still on — the piece must report nothing on its first character -/
example : ∃ ps, exS.splitGen (some "ab".toList) (-1) false = .ok ps ∧ ps.map (·.s) = ["x".toList, "bbb".toList] ∧
    ∃ p, ps[1]? = some p ∧ act p 0 = [] ∧ ∃ q, ps[0]? = some q ∧ act q 0 = [red] :=
  ⟨_, rfl, by decide, _, rfl, by decide, _, rfl, by decide⟩
example : Py.find exS.s "bbb".toList 0 = some 2 ∧ act exS 2 = [red] ∧ act exS 3 = [] := by decide
example (ps : List AStr) (hps : exS.splitGen (some "ab".toList) (-1) false = .ok ps) (p : AStr)
    (hp : ps[1]? = some p) (hk : 0 < p.len) :
    act p 0 = act exS (((ps.take 1).map (fun q => q.len + 2)).sum + 0) :=
  split_settings exS exS_wf "ab".toList (by decide) (-1) false ps hps 1 p hp 0 hk
/-- `rsplit` with `maxsplit` -/
example : ∃ ps, exS.splitGen (some "b".toList) 2 true = .ok ps ∧
    ps.map (·.s) = ["xabb".toList, [], []] ∧ ∃ p, ps[0]? = some p ∧ act p 2 = [red] ∧ act p 3 = [] :=
  ⟨_, rfl, by decide, _, rfl, by decide⟩

/-! whitespace splitting: `" a  b c "` is `" " a "  " b " " c " "`; true offsets 1, 4, 6 -/
example : Layout Py.isSpace exW.s [" ".toList, "  ".toList, " ".toList, " ".toList]
    ["a".toList, "b".toList, "c".toList] := ⟨by decide, by decide, by decide⟩
example : trueOff [" ".toList, "  ".toList, " ".toList, " ".toList] ["a".toList, "b".toList, "c".toList] 1 = 4 ∧
    trueOff [" ".toList, "  ".toList, " ".toList, " ".toList] ["a".toList, "b".toList, "c".toList] 2 = 6 := by
  decide
example : ∃ ps, exW.splitGen none (-1) false = .ok ps ∧
    ps.map (·.s) = ["a".toList, "b".toList, "c".toList] ∧
    ps.map (fun p => act p 0) = [[red], [red], []] := ⟨_, rfl, by decide, by decide⟩
/-- `rsplit(None, 1)`: the unsplit rest `" a  b"` is a prefix of the text and starts with a blank -/
example : ∃ ps, exW.splitGen none 1 true = .ok ps ∧ ps.map (·.s) = [" a  b".toList, "c".toList] ∧
    ps.map (fun p => act p 0) = [[red], []] ∧ ps.map (fun p => act p 4) = [[red], []] :=
  ⟨_, rfl, by decide, by decide, by decide⟩
example : Layout Py.isSpace exW.s [[], " ".toList, " ".toList] [" a  b".toList, "c".toList] :=
  ⟨by decide, by decide, by decide⟩

/-! splitlines: `"a\r\n\nb"`; the empty line is located early (offset 1 instead of 3) but has no
    characters; `b` is found at its true offset 4 -/
example : AStr.pieceOffsets exL.s 0 (Py.splitlines exL.s false) 0 = [(0, 1), (1, 0), (4, 1)] := by decide
example : Layout (lineSep false) exL.s [[], "\r\n".toList, "\n".toList, []] ["a".toList, [], "b".toList] :=
  ⟨by decide, by decide, by decide⟩
example : trueOff [[], "\r\n".toList, "\n".toList, []] ["a".toList, [], "b".toList] 1 = 3 ∧
    trueOff [[], "\r\n".toList, "\n".toList, []] ["a".toList, [], "b".toList] 2 = 4 := by decide
example : (exL.splitlines false).map (·.s) = ["a".toList, [], "b".toList] ∧
    (exL.splitlines false).map (fun p => act p 0) = [[red], [], []] ∧
    (exL.splitlines false)[1]? = some { s := [], fmts := [] } := by decide
/-- an empty line has no determined position (two layouts, offsets 3 and 4), `b` has (offset 4) -/
example : Layout (lineSep false) exL.s [[], "\r\n\n".toList, [], []] ["a".toList, [], "b".toList] ∧
    trueOff [[], "\r\n\n".toList, [], []] ["a".toList, [], "b".toList] 1 = 4 ∧
    trueOff [[], "\r\n\n".toList, [], []] ["a".toList, [], "b".toList] 2 = 4 :=
  ⟨⟨by decide, by decide, by decide⟩, by decide, by decide⟩
/-- `keepends`: no gaps at all -/
example : Layout (lineSep true) exL.s [[], [], [], []] ["a\r\n".toList, "\n".toList, "b".toList] :=
  ⟨by decide, by decide, by decide⟩
example : (exL.splitlines true).map (·.s) = ["a\r\n".toList, "\n".toList, "b".toList] ∧
    (exL.splitlines true).map (fun p => act p 0) = [[red], [red], []] := by decide

/-! case conversion -/
example : "XABBBB".toList.length = exS.len ∧ act (exS.mapText "XABBBB".toList) 2 = [red] ∧
    act (exS.mapText "XABBBB".toList) 3 = [] := by decide
example : WF (exS.mapText "XABBBB".toList) := mapText_wf exS exS_wf _ (by decide)
/-- what the property excludes: `'aßb'.upper() == 'ASSB'` is longer; the table stays, so the second
    `S` reports the settings of the old `b` and the new `B` reports nothing -/
example :
    let x : AStr :=
      { s := "aßb".toList,
        fmts := [(1, { add := [red] }), (2, { add := [blue], rem := [red] }), (3, { rem := [blue] })] }
    "ASSB".toList.length ≠ x.len ∧ act (x.mapText "ASSB".toList) 1 = [red] ∧
      act (x.mapText "ASSB".toList) 2 = [blue] ∧ act (x.mapText "ASSB".toList) 3 = [] := by decide

/-! assign_str with a shorter text -/
example : "XY".toList.length < exS.len := by decide
example : exS.assignStr "XY".toList = { s := "XY".toList, fmts := [(0, { add := [red] }), (2, { rem := [red] })] } := by
  decide
example : act (exS.assignStr "XY".toList) 1 = act exS 1 :=
  assignStr_shorter exS exS_wf _ (by decide) 1 (by decide)
example : act (exS.assignStr "XY".toList) 2 = [] :=
  assignStr_shorter_closed exS exS_wf _ (by decide) 2 (by decide)
example : WF (exS.assignStr "XY".toList) := assignStr_wf_shorter exS exS_wf _ (by decide)
example : exS.assignStr "wxyz".toList =
    { s := "wxyz".toList, fmts := [(0, { add := [red] }), (3, { rem := [red] })] } := by decide

end Examples

end C11

#print axioms C11.strip_settings
#print axioms C11.strip_at
#print axioms C11.strip_unchanged
#print axioms C11.strip_wf
#print axioms C11.removeprefix_settings
#print axioms C11.removeprefix_absent
#print axioms C11.removesuffix_settings
#print axioms C11.removesuffix_absent
#print axioms C11.removeprefix_wf
#print axioms C11.removesuffix_wf
#print axioms C11.partition_settings
#print axioms C11.partition_settings_first
#print axioms C11.rpartition_settings_last
#print axioms C11.partition_absent
#print axioms C11.partition_wf
#print axioms C11.split_settings
#print axioms C11.split_wf
#print axioms C11.Layout.piece_at
#print axioms C11.Layout.trueOff_unique
#print axioms C11.Layout.trueOff_unique_nonempty
#print axioms C11.splitWs_settings
#print axioms C11.splitlines_settings
#print axioms C11.splitlines_wf
#print axioms C11.case_settings
#print axioms C11.mapText_wf
#print axioms C11.assignStr_shorter
#print axioms C11.assignStr_shorter_closed
#print axioms C11.assignStr_wf_shorter
