import AnsiProofs.Props.C04b
import AnsiModel.Render
/-
  Property C06, part c — the guard `apply_formatting` starts with, from the source.

  `Gen.applyGuard` is the leading part of `AnsiString.apply_formatting` — the two bound conversions and
  the "nothing to apply" test — translated statement by statement on every run (harness/pyint.py,
  prefix mode: 1 = the method has returned, 0 = it goes on to the statements that are modelled by hand).
  The model's `applyRaw` starts with a hand-written guard; the theorems tie the two for every length,
  every pair of bounds and every settings argument, so a changed comparison (`end < start` for
  `end <= start`, a dropped clamp, `start > len`) no longer checks, while an equivalent rewrite does.
-/
namespace C06c

theorem guard_is_code (n : Nat) (sNone truthy : Bool) (s e : Option Int) (tn tt : Bool) :
    Gen.applyGuard (n : Int) sNone truthy s e tn tt =
      if truthy = false ∨ sliceIdx n s 0 ≥ n ∨ sliceIdx n e n ≤ sliceIdx n s 0 then 1 else 0 := by
  have hs := (C04b.sliceIdx_is_code n s 0).2
  have he := (C04b.sliceIdx_is_code n e n).2
  have hs' : Gen.sliceValToIdx (n : Int) s 0 = (sliceIdx n s 0 : Int) := by simpa using hs
  unfold Gen.applyGuard
  simp only [hs', he]
  generalize sliceIdx n s 0 = a
  generalize sliceIdx n e n = b
  cases truthy <;> simp <;> grind

/-- THE MODEL'S GUARD IS THE CODE'S GUARD: `apply_formatting` returns at once, leaving the value as
    it is, exactly when the translated guard says so … -/
theorem applyRaw_returns (x : AStr) (nid : Nat) (a : SArg) (s e : Option Int) (top : Bool) (sNone tn tt : Bool)
    (h : Gen.applyGuard (x.len : Int) sNone a.truthy s e tn tt = 1) :
    x.applyRaw nid a s e top = .ok x := by
  rw [guard_is_code] at h
  have hc : a.truthy = false ∨ sliceIdx x.len s 0 ≥ x.len ∨ sliceIdx x.len e x.len ≤ sliceIdx x.len s 0 := by
    by_cases hn : a.truthy = false ∨ sliceIdx x.len s 0 ≥ x.len ∨ sliceIdx x.len e x.len ≤ sliceIdx x.len s 0
    · exact hn
    · rw [if_neg hn] at h; omega
  unfold AStr.applyRaw
  simp only []
  rw [if_pos]
  rcases hc with h1 | h2 | h3
  · left; simp [h1]
  · right; left; exact h2
  · right; right; exact h3

/-- … and otherwise goes on to scrub the settings and apply them. -/
theorem applyRaw_goes_on (x : AStr) (nid : Nat) (a : SArg) (s e : Option Int) (top : Bool) (sNone tn tt : Bool)
    (h : Gen.applyGuard (x.len : Int) sNone a.truthy s e tn tt = 0) :
    x.applyRaw nid a s e top =
      (do let ts ← Scrub.scrub a; pure (x.applyFormatting (freshSettings nid ts) s e top)) := by
  rw [guard_is_code] at h
  have hc : ¬ (a.truthy = false ∨ sliceIdx x.len s 0 ≥ x.len ∨ sliceIdx x.len e x.len ≤ sliceIdx x.len s 0) := by
    intro hp; rw [if_pos hp] at h; omega
  unfold AStr.applyRaw
  simp only []
  rw [if_neg]
  intro hp
  apply hc
  rcases hp with h1 | h2 | h3
  · left; simpa using h1
  · right; left; exact h2
  · right; right; exact h3

/-- the guard has no third outcome (it never raises) -/
theorem guard_total (n : Nat) (sNone truthy : Bool) (s e : Option Int) (tn tt : Bool) :
    Gen.applyGuard (n : Int) sNone truthy s e tn tt = 0 ∨ Gen.applyGuard (n : Int) sNone truthy s e tn tt = 1 := by
  rw [guard_is_code]; split <;> simp

/-- non-vacuity: an empty range returns, a proper one goes on -/
example : Gen.applyGuard 5 false true (some 2) (some 2) false true = 1 := by decide
example : Gen.applyGuard 5 false true (some 2) (some 3) false true = 0 := by decide
example : Gen.applyGuard 5 false true (some (-9)) none false true = 0 := by decide
example : Gen.applyGuard 5 false false (some 1) (some 3) false true = 1 := by decide

end C06c
