import AnsiModel.Generated.Wrappers
/-
  Property C10, part b — the delegating `AnsiString` methods, from the source.

  `Gen.ansiString` is regenerated on every run from the AST of `class AnsiString`.  The query
  methods of C10 ("return exactly what str returns for t") are, in the code, one-line delegations to
  the `str` method of the same name on the base text; the case methods rewrite only the text through
  the `str` method of the same name; `zfill`, `expandtabs`, `split`/`rsplit`, the `strip` family,
  `__str__`, `__format__` and `is_optimizable` are one-line calls of another method of the class —
  which is how the hand-written model defines them.  This file proves that the regenerated table
  says exactly that, and what a query delegation means for any `str` semantics.
-/
namespace C10b
open Wrap

/-- the query methods of the property statement -/
def queryNames : List String :=
  ["count", "find", "rfind", "index", "rindex", "endswith", "isalnum", "isalpha", "isascii", "isdecimal",
   "isdigit", "isidentifier", "islower", "isnumeric", "isprintable", "isspace", "istitle", "isupper"]

/-- `def m(self, p1, …, pn): return self._s.m(p1, …, pn)` — same name, same arguments, same order -/
def isQueryDelegation (m : WMethod) : Bool :=
  m.body == .strFwd m.name (m.params.map fun p => .param p.name) && m.params.all (·.kind == 0) && m.deco == ""

/-- EVERY QUERY METHOD IS A DELEGATION TO THE `str` METHOD OF ITS NAME WITH ITS OWN ARGUMENTS. -/
theorem queries_delegate : ∀ n ∈ queryNames, (lookup Gen.ansiString n).map isQueryDelegation = some true := by
  decide +kernel

/-- … and therefore returns what `str` returns: for any semantics `strCall` of the `str` methods,
    the method's answer on an object with base text `t` is `strCall name t [the caller's arguments]` -/
theorem query_sem {T V R : Type} (strCall : String → T → List V → R) (ev : String → (String → V) → V)
    (ρ : String → V) (t : T) (m : WMethod) (h : isQueryDelegation m = true) :
    interpStrFwd strCall ev ρ t m.body = some (strCall m.name t (m.params.map fun p => ρ p.name)) := by
  unfold isQueryDelegation at h
  simp only [Bool.and_eq_true, beq_iff_eq] at h
  rw [h.1.1]
  simp [interpStrFwd, List.map_map, Function.comp_def]

/-- the defaults of the bounds are Python's (`start=None`/`0`, `end=None`): same call, same meaning -/
theorem query_signatures :
    (lookup Gen.ansiString "find").map (·.params) = (lookup Gen.ansiString "rfind").map (·.params) ∧
    (lookup Gen.ansiString "find").map (·.params) = (lookup Gen.ansiString "index").map (·.params) ∧
    (lookup Gen.ansiString "find").map (·.params) = (lookup Gen.ansiString "rindex").map (·.params) ∧
    (lookup Gen.ansiString "find").map (·.params) = (lookup Gen.ansiString "count").map (·.params) := by
  decide +kernel

/-- `len(s)` is `len` of the base text -/
theorem len_delegates : (lookup Gen.ansiString "__len__").map (fun m => (m.params, m.body)) = some ([], .strLen) := by
  decide +kernel

def caseNames : List String := ["capitalize", "casefold", "lower", "upper", "swapcase", "title"]

/-- THE CASE METHODS: `obj = self if inplace else self.copy(); obj._s = obj._s.<same name>(); return obj`
    — the text becomes `str`'s answer and nothing else of the object is touched (C10 text clause,
    C11 "case conversions keep the settings at every position", C08 in-place switch) -/
theorem case_methods : ∀ n ∈ caseNames,
    (lookup Gen.ansiString n).map (fun m => (m.params, m.body)) =
      some ([⟨"inplace", 0, some "False"⟩], .caseMap n) := by
  decide +kernel

/-- the `strip` family is `_strip` with the two side flags; `chars` and `inplace` passed on -/
theorem strip_family :
    (lookup Gen.ansiString "lstrip").map (·.body) = some (.viaSelf "_strip"
      [("chars", .param "chars"), ("inplace", .param "inplace"), ("do_lstrip", .const "True"), ("do_rstrip", .const "False")]) ∧
    (lookup Gen.ansiString "rstrip").map (·.body) = some (.viaSelf "_strip"
      [("chars", .param "chars"), ("inplace", .param "inplace"), ("do_lstrip", .const "False"), ("do_rstrip", .const "True")]) ∧
    (lookup Gen.ansiString "strip").map (·.body) = some (.viaSelf "_strip"
      [("chars", .param "chars"), ("inplace", .param "inplace"), ("do_lstrip", .const "True"), ("do_rstrip", .const "True")]) ∧
    (lookup Gen.ansiString "strip").map (·.params) = some [⟨"chars", 0, some "None"⟩, ⟨"inplace", 0, some "False"⟩] ∧
    (lookup Gen.ansiString "lstrip").map (·.params) = some [⟨"chars", 0, some "None"⟩, ⟨"inplace", 0, some "False"⟩] ∧
    (lookup Gen.ansiString "rstrip").map (·.params) = some [⟨"chars", 0, some "None"⟩, ⟨"inplace", 0, some "False"⟩] := by
  decide +kernel

/-- `split`/`rsplit` are `_split` with the direction flag; `sep=None`, `maxsplit=-1` as for `str` -/
theorem split_family :
    (lookup Gen.ansiString "split").map (fun m => (m.params, m.body)) = some
      ([⟨"sep", 0, some "None"⟩, ⟨"maxsplit", 0, some "-1"⟩],
       .viaSelf "_split" [("sep", .param "sep"), ("maxsplit", .param "maxsplit"), ("r", .const "False")]) ∧
    (lookup Gen.ansiString "rsplit").map (fun m => (m.params, m.body)) = some
      ([⟨"sep", 0, some "None"⟩, ⟨"maxsplit", 0, some "-1"⟩],
       .viaSelf "_split" [("sep", .param "sep"), ("maxsplit", .param "maxsplit"), ("r", .const "True")]) := by
  decide +kernel

/-- "zfill is rjust with '0'" -/
theorem zfill_is_rjust_zero :
    (lookup Gen.ansiString "zfill").map (fun m => (m.params, m.body)) = some
      ([⟨"width", 0, none⟩, ⟨"inplace", 0, some "False"⟩],
       .viaSelf "rjust" [("width", .param "width"), ("fillchar", .const "'0'"), ("inplace", .param "inplace"),
         ("extend_formatting", .dflt "True")]) := by
  decide +kernel

/-- "expandtabs replaces each tab by exactly tabsize spaces": it *is* `replace('\t', ' ' * tabsize)` -/
theorem expandtabs_is_replace :
    (lookup Gen.ansiString "expandtabs").map (fun m => (m.params, m.body)) = some
      ([⟨"tabsize", 0, some "8"⟩, ⟨"inplace", 0, some "False"⟩],
       .viaSelf "replace" [("old", .const "'\\t'"), ("new", .other "' ' * tabsize"), ("count", .dflt "-1"),
         ("inplace", .param "inplace")]) := by
  decide +kernel

/-- `str(s)` is `format(s, None)` is `s.to_str(None)` with the default flags; `is_optimizable` is
    `is_formatting_parsable` -/
theorem render_entry_points :
    (lookup Gen.ansiString "__str__").map (fun m => (m.params, m.body)) = some
      ([], .viaSelf "__format__" [("__format_spec", .const "None")]) ∧
    (lookup Gen.ansiString "__format__").map (fun m => (m.params, m.body)) = some
      ([⟨"__format_spec", 0, none⟩], .viaSelf "to_str" [("format_spec", .param "__format_spec"),
        ("optimize", .dflt "True"), ("reset_start", .dflt "False"), ("reset_end", .dflt "True")]) ∧
    (lookup Gen.ansiString "is_optimizable").map (fun m => (m.params, m.body)) = some
      ([], .viaSelf "is_formatting_parsable" []) := by
  decide +kernel

/-- non-vacuity: what `query_sem` says for `find` -/
example {T V R : Type} (strCall : String → T → List V → R) (ev : String → (String → V) → V)
    (ρ : String → V) (t : T) (m : WMethod) (hm : lookup Gen.ansiString "find" = some m) :
    interpStrFwd strCall ev ρ t m.body = some (strCall "find" t [ρ "sub", ρ "start", ρ "end"]) := by
  have h1 : (lookup Gen.ansiString "find").map isQueryDelegation = some true := queries_delegate "find" (by decide)
  have h2 : (lookup Gen.ansiString "find").map (fun m => (m.name, m.params.map (·.name))) = some ("find", ["sub", "start", "end"]) := by
    decide +kernel
  rw [hm] at h1 h2
  simp only [Option.map_some, Option.some.injEq, Prod.mk.injEq] at h1 h2
  have := query_sem strCall ev ρ t m h1
  rw [this, h2.1]
  have h3 : m.params.map (fun p => ρ p.name) = (m.params.map (·.name)).map ρ := by simp [List.map_map, Function.comp_def]
  rw [h3, h2.2]; rfl

end C10b
