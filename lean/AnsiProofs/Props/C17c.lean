import AnsiProofs.Props.C04c
import AnsiProofs.Props.C06d
import AnsiProofs.Props.C09c
import AnsiProofs.Props.C12b
import AnsiModel.Generated.Methods.AnsiSettingsAtCode
/-
  Property C17, part c — the *generated* (statement-by-statement translated) `AnsiString.ansi_settings_at`
  (`Gen.ansiSettingsAtCode` of `AnsiModel/Generated/Methods/AnsiSettingsAtCode.lean`) computes exactly
  what the hand-written model says (`AStr.ansiSettingsAt`, `AnsiModel/Replay.lean`, i.e. `active` /
  `activeFrom`) on values whose table is sorted; the outcome `Exc.key` (the fetch `self._fmts[idx]` of
  the iterator) never happens there.

  The file is split in two:

  * `namespace C17c.L` — everything that does not mention `Gen.ansiSettingsAtCode`:
    - `round`: one round of the `for` loop as a function on the loop state
      `(previous_settings, current_settings, done)`; `loopS`: the rounds over a table, nothing changing
      once `done` (Python's `break`) is set;
    - `RoundSpec fm i step`: what a step function has to do to be that round — a no-op on a state with
      `done`, and `round` on a key of the table `fm` given as the Python `int`;
    - `fold_loop`: for *any* step function meeting `RoundSpec`, `List.foldlM` over the ascending keys
      of a sorted table is `loopS` (here `SortedKeys` is used: the key under the cursor is found by
      `Fmts.get?`, which stops early, because everything before it is smaller);
    - `loopS_active`: started with `previous_settings = current_settings`, `loopS` ends with
      `previous_settings = activeFrom current_settings` of the table.
  * `namespace C17c` — the theorems over `Gen.ansiSettingsAtCode`: `unfold`, the loop rewritten by
    `fold_loop` with the spec of the round discharged for the generated lambda by `intro …; simp`.
-/

namespace C17c
namespace L
open C06d.L

/-- the state of the translated loop: `(previous_settings, current_settings, done)` -/
abbrev S := List Setting × List Setting × Bool

/-- one round of the loop of `ansi_settings_at` on the key `k` holding the point `p`, the loop still
    running -/
def round (i : Nat) (_prev cur : List Setting) (k : Nat) (p : Point) : S :=
  let cur' := stepPoint cur p
  if k > i then (_prev, cur', true) else (cur', cur', false)

/-- the whole loop over the entries of a table; once `done` is set nothing changes -/
def loopS (i : Nat) : S → Fmts → S
  | s, [] => s
  | (prev, cur, true), _ :: _ => (prev, cur, true)
  | (prev, cur, false), (k, p) :: rest => loopS i (round i prev cur k p) rest

theorem loopS_done (i : Nat) (prev cur : List Setting) (B : Fmts) :
    loopS i (prev, cur, true) B = (prev, cur, true) := by
  cases B <;> rfl

/-- what one round of the translated loop has to do, whatever it looks like: nothing once `done` is
    set; otherwise, on a key `k` of the table `fm` (given as the `int` it is in Python) holding `p`,
    what `round` says -/
def RoundSpec (fm : Fmts) (i : Nat) (step : S → Int → Except Exc S) : Prop :=
  (∀ prev cur idx, step (prev, cur, true) idx = .ok (prev, cur, true)) ∧
  (∀ prev cur (k : Nat) p, fm.get? k = some p →
    step (prev, cur, false) (k : Int) = .ok (round i prev cur k p))

theorem fold_loop_aux {fm : Fmts} {i : Nat} {step : S → Int → Except Exc S}
    (hstep : RoundSpec fm i step) (hs : SortedKeys fm) :
    ∀ (B A : Fmts), fm = A ++ B → ∀ s : S,
      List.foldlM step s (B.map (fun kp => (kp.1 : Int))) = .ok (loopS i s B) := by
  intro B
  induction B with
  | nil => intro A _ s; rfl
  | cons kp B ih =>
    intro A hfm s
    obtain ⟨k, p⟩ := kp
    obtain ⟨prev, cur, d⟩ := s
    have hnext : fm = (A ++ [(k, p)]) ++ B := by simp [hfm]
    rw [List.map_cons, List.foldlM_cons]
    cases d with
    | true =>
      rw [hstep.1]
      show List.foldlM step _ _ = _
      rw [ih _ hnext, loopS_done, loopS_done]
    | false =>
      have hA : ∀ x ∈ A, x.1 < k := by
        intro x hx
        rw [hfm] at hs
        exact (List.pairwise_append.mp hs).2.2 x hx (k, p) (by simp)
      have hg : fm.get? k = some p := by rw [hfm]; exact C12b.L.get?_mid p B hA
      rw [hstep.2 _ _ _ _ hg]
      show List.foldlM step _ _ = _
      rw [ih _ hnext]
      rfl

/-- THE LOOP: over the ascending keys of a sorted table, rounds that meet `RoundSpec` compute `loopS` -/
theorem fold_loop {fm : Fmts} {i : Nat} {step : S → Int → Except Exc S}
    (hstep : RoundSpec fm i step) (hs : SortedKeys fm) (s : S) :
    List.foldlM step s (Obj.keysAsc fm) = .ok (loopS i s fm) := by
  have h := fold_loop_aux hstep hs fm [] rfl s
  unfold Obj.keysAsc Fmts.keys
  rw [List.map_map]
  exact h

/-- `loopS` is the model's `activeFrom`: as long as the loop runs `previous_settings` is
    `current_settings`; the `break` keeps the one before the first key beyond `i` -/
theorem loopS_active (i : Nat) :
    ∀ (B : Fmts) (cur : List Setting), (loopS i (cur, cur, false) B).1 = activeFrom cur B i := by
  intro B
  induction B with
  | nil => intro cur; rfl
  | cons kp B ih =>
    intro cur
    obtain ⟨k, p⟩ := kp
    show (loopS i (round i cur cur k p) B).1 = _
    unfold round activeFrom
    by_cases h : k > i
    · have h' : ¬ k ≤ i := by omega
      simp only [h, h', if_true, if_false, loopS_done]
    · have h' : k ≤ i := by omega
      simp only [h, h', if_true, if_false]
      exact ih (stepPoint cur p)

end L

open L C06d.L

/-- the method was translated (it did not fall outside the translator's fragment) -/
theorem translated : Gen.ansiSettingsAtCodeOk = true := by decide

/-- THE GENERATED `ansi_settings_at` IS THE MODEL'S `ansiSettingsAt`: the statements translated from
    the source end normally with exactly the model's value — no `KeyError` -/
theorem ansiSettingsAt_is_code (x : AStr) (hs : SortedKeys x.fmts) (idx : Int) :
    Gen.ansiSettingsAtCode x idx = .ok (x.ansiSettingsAt idx) := by
  unfold Gen.ansiSettingsAtCode
  by_cases hin : 0 ≤ idx ∧ idx < (x.s.length : Int)
  · obtain ⟨i, rfl⟩ : ∃ i : Nat, idx = (i : Int) := ⟨idx.toNat, by omega⟩
    have hi : i < x.s.length := by omega
    have hc : ((decide ((i : Int) ≥ (0 : Int))) && (decide ((i : Int) < ((x.s).length : Int)))) = true := by
      simp only [ge_iff_le, Bool.and_eq_true, decide_eq_true_eq]; exact hin
    rw [if_pos hc]
    simp only []
    rw [fold_loop (i := i) ?spec hs]
    case spec =>
      constructor
      · intro prev cur idx
        simp
      · intro prev cur k p hg
        simp only [C04c.L.get_some hg, bind_ok, C09c.iter_step_is_code]
        unfold round
        by_cases h : k > i
        · simp [h]
        · simp [h]
    have hl := loopS_active i x.fmts []
    have hm : x.ansiSettingsAt (i : Int) = active x.fmts i := ansiSettingsAt_nat x.s x.fmts i hi
    rw [hm, active, ← hl]
    rfl
  · have hc : ¬ (((decide (idx ≥ (0 : Int))) && (decide (idx < ((x.s).length : Int)))) = true) := by
      simp only [ge_iff_le, Bool.and_eq_true, decide_eq_true_eq]; exact hin
    rw [if_neg hc]
    unfold AStr.ansiSettingsAt AStr.len
    rw [if_neg hin]

/-- under the same hypothesis the translated statements raise nothing: no `KeyError` from the fetch of
    the point of a key, nothing outside the model's representation, no Python exception -/
theorem ansiSettingsAt_never_outside (x : AStr) (hs : SortedKeys x.fmts) (idx : Int) (err : Exc) :
    Gen.ansiSettingsAtCode x idx ≠ .error err := by
  rw [ansiSettingsAt_is_code x hs idx]
  intro h; cases h

/-! ## Non-vacuity: a concrete value -/

/-- "abcdef", object 0 (`31`) from 0 to 6, object 1 (`1`) from 2 to 4 -/
def x0 : AStr :=
  { s := "abcdef".toList,
    fmts := [(0, { add := [⟨0, "31".toList⟩] }), (2, { add := [⟨1, "1".toList⟩] }),
             (4, { rem := [⟨1, "1".toList⟩] }), (6, { rem := [⟨0, "31".toList⟩] })] }

example : SortedKeys x0.fmts := by simp [x0, SortedKeys]

example : Gen.ansiSettingsAtCode x0 3 = .ok (x0.ansiSettingsAt 3) := by decide +kernel
example : Gen.ansiSettingsAtCode x0 (-1) = .ok (x0.ansiSettingsAt (-1)) := by decide +kernel
example : Gen.ansiSettingsAtCode x0 6 = .ok (x0.ansiSettingsAt 6) := by decide +kernel

/-- the values themselves -/
example : Gen.ansiSettingsAtCode x0 3 = .ok [⟨0, "31".toList⟩, ⟨1, "1".toList⟩] := by decide +kernel
example : Gen.ansiSettingsAtCode x0 4 = .ok [⟨0, "31".toList⟩] := by decide +kernel
example : Gen.ansiSettingsAtCode x0 (-1) = .ok [] := by decide +kernel
example : Gen.ansiSettingsAtCode x0 6 = .ok [] := by decide +kernel

/-- the hypothesis `SortedKeys` is needed: on a table out of order the fetch of the point meets `Exc.key` -/
example : Gen.ansiSettingsAtCode { s := "abc".toList, fmts := [(2, {}), (0, {})] } 2 = .error .key := by
  decide +kernel

end C17c

#print axioms C17c.translated
#print axioms C17c.ansiSettingsAt_is_code
#print axioms C17c.ansiSettingsAt_never_outside
