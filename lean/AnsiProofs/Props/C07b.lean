import AnsiProofs.Props.C04b
import AnsiModel.Render
/-
  Property C07, part b — the guard `remove_formatting` starts with, from the source.

  `Gen.removeGuard` is the leading part of `AnsiString.remove_formatting` (bound conversions and the
  "nothing to remove" test: settings given but empty, start beyond the text, empty range), translated
  statement by statement on every run (harness/pyint.py, prefix mode).  The theorems tie it to the
  hand-written guard of the model's `removeRaw`.
-/
namespace C07b

theorem guard_is_code (n : Nat) (isNone truthy : Bool) (s e : Option Int) :
    Gen.removeGuard (n : Int) isNone truthy s e =
      if (isNone = false ∧ truthy = false) ∨ sliceIdx n s 0 ≥ n ∨ sliceIdx n e n ≤ sliceIdx n s 0 then 1 else 0 := by
  have hs := (C04b.sliceIdx_is_code n s 0).2
  have he := (C04b.sliceIdx_is_code n e n).2
  have hs' : Gen.sliceValToIdx (n : Int) s 0 = (sliceIdx n s 0 : Int) := by simpa using hs
  unfold Gen.removeGuard
  simp only [hs', he]
  generalize sliceIdx n s 0 = a
  generalize sliceIdx n e n = b
  cases truthy <;> cases isNone <;> simp <;> grind

/-- what the model's `removeRaw` calls "falsy": settings given (not `None`) and empty -/
def isNoneArg (a : Option SArg) : Bool := a.isNone
def truthyArg (a : Option SArg) : Bool := match a with | some a => a.truthy | none => false

/-- THE MODEL'S GUARD IS THE CODE'S GUARD: `remove_formatting` returns at once exactly when the
    translated guard says so … -/
theorem removeRaw_returns (x : AStr) (a : Option SArg) (s e : Option Int)
    (h : Gen.removeGuard (x.len : Int) (isNoneArg a) (truthyArg a) s e = 1) :
    x.removeRaw a s e = .ok x := by
  rw [guard_is_code] at h
  have hc : (isNoneArg a = false ∧ truthyArg a = false) ∨ sliceIdx x.len s 0 ≥ x.len ∨
      sliceIdx x.len e x.len ≤ sliceIdx x.len s 0 := by
    by_cases hn : (isNoneArg a = false ∧ truthyArg a = false) ∨ sliceIdx x.len s 0 ≥ x.len ∨
        sliceIdx x.len e x.len ≤ sliceIdx x.len s 0
    · exact hn
    · rw [if_neg hn] at h; omega
  unfold AStr.removeRaw
  simp only []
  rw [if_pos]
  rcases hc with h1 | h2 | h3
  · left
    cases a with
    | none => simp [isNoneArg] at h1
    | some a => simpa [truthyArg] using h1.2
  · right; left; exact h2
  · right; right; exact h3

/-- … and otherwise goes on; `settings=None`: everything active in the range is removed -/
theorem removeRaw_goes_on_none (x : AStr) (s e : Option Int)
    (h : Gen.removeGuard (x.len : Int) true false s e = 0) :
    x.removeRaw none s e = .ok (x.removeFormatting none s e) := by
  rw [guard_is_code] at h
  have hc : ¬ (sliceIdx x.len s 0 ≥ x.len ∨ sliceIdx x.len e x.len ≤ sliceIdx x.len s 0) := by
    intro hp; rw [if_pos (Or.inr hp)] at h; omega
  unfold AStr.removeRaw
  simp only []
  rw [if_neg]
  intro hp
  rcases hp with h1 | h2
  · simp at h1
  · exact hc h2

/-- … settings given and not empty: they are scrubbed and removed -/
theorem removeRaw_goes_on_some (x : AStr) (a : SArg) (s e : Option Int)
    (h : Gen.removeGuard (x.len : Int) false a.truthy s e = 0) :
    x.removeRaw (some a) s e = (do let ts ← Scrub.scrub a; pure (x.removeFormatting (some ts) s e)) := by
  rw [guard_is_code] at h
  have hc : ¬ ((false = false ∧ a.truthy = false) ∨ sliceIdx x.len s 0 ≥ x.len ∨
      sliceIdx x.len e x.len ≤ sliceIdx x.len s 0) := by
    intro hp; rw [if_pos hp] at h; omega
  unfold AStr.removeRaw
  simp only []
  rw [if_neg]
  intro hp
  apply hc
  rcases hp with h1 | h2 | h3
  · left; exact ⟨rfl, by simpa using h1⟩
  · right; left; exact h2
  · right; right; exact h3

/-- the guard never raises -/
theorem guard_total (n : Nat) (isNone truthy : Bool) (s e : Option Int) :
    Gen.removeGuard (n : Int) isNone truthy s e = 0 ∨ Gen.removeGuard (n : Int) isNone truthy s e = 1 := by
  rw [guard_is_code]; split <;> simp

example : Gen.removeGuard 5 true false (some 1) (some 3) = 0 := by decide     -- None: remove everything
example : Gen.removeGuard 5 false false (some 1) (some 3) = 1 := by decide    -- [] given: nothing to do
example : Gen.removeGuard 5 false true (some 3) (some 3) = 1 := by decide     -- empty range
example : Gen.removeGuard 5 false true (some 5) none = 1 := by decide         -- start at the end

end C07b
