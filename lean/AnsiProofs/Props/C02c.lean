import AnsiModel.SetAnsi
import AnsiModel.Generated.Methods.SetAnsiDiff
/-
  Property C02, part c — the block of `AnsiString.set_ansi_str` that computes `settings_to_remove` /
  `settings_to_apply` from the old and the new effect dictionaries, from the source.

  `Gen.setAnsiDiff` is that block translated statement by statement on every run (harness/pyobj.py):
  a loop over the new dictionary (a changed effect stops the old setting object and starts the new
  one, a new effect starts), then a loop over the old dictionary (an effect that is gone stops).
  The hand-written model `AStr.setAnsiStep` (`AnsiModel/SetAnsi.lean`) has the same two lists as the
  local expressions `toRemove` / `toApply`; they are repeated here verbatim as functions
  (`step_uses_diff` shows, by `rfl`, that the model's step is written with them) and
  `diff_is_code` shows that the translated statements compute exactly them, in the same order, and
  never raise (`d[k]` is only evaluated under `k in d`).

  The file is split in two:

  * `namespace C02c.L` — nothing about `Gen.setAnsiDiff`: a `for` loop whose round appends to its one /
    two accumulated lists something that depends on the element only is a `flatMap`
    (`fold_append1`, `fold_append2`, for an arbitrary round function meeting that spec), what the
    rounds append (`applyOf`, `removeOf`, `goneOf`), the `flatMap`s of these are the model's
    `filter`/`filterMap`/`map` expressions (`flatMap_if`, `changed_eq`), and the primitives
    `Py.dictGet`, `PyDict.contains` in terms of `PyDict.get?` (`dictGet_eq`, `contains_eq`; all three
    are `find?` of the first pair with the key, so no hypothesis on the dictionaries is needed — keys
    may even repeat).
  * `namespace C02c` — the theorems over `Gen.setAnsiDiff`: `unfold`, the two loops rewritten with the
    fold lemmas, the spec of each round discharged by `intro`, `cases` on the lookup, `simp`.  The same
    script was run unchanged against a rewritten variant of the generated function (`if k not in old:
    … else: …`, `if old[k] == v: pass else: …` with `old[k]` bound once, the second loop written
    `if k in new: pass else: …`, no rebinding of `current_settings`, the last `match` gone) and passed.
-/

namespace C02c
namespace L

theorem bind_ok {ε α β : Type} (a : α) (f : α → Except ε β) : (Except.ok a).bind f = f a := rfl

/-- a `for` loop whose round appends to the accumulated list something that depends on the element only -/
theorem fold_append1 {ε α β : Type} (f : List β → α → Except ε (List β)) (R : α → List β)
    (hf : ∀ acc a, f acc a = .ok (acc ++ R a)) (l : List α) (acc : List β) :
    List.foldlM f acc l = .ok (acc ++ l.flatMap R) := by
  induction l generalizing acc with
  | nil => simp [pure, Except.pure]
  | cons a l ih =>
    rw [List.foldlM_cons, hf]
    show List.foldlM f (acc ++ R a) l = _
    rw [ih]; simp

/-- the same with two accumulated lists -/
theorem fold_append2 {ε α β γ : Type} (f : List β × List γ → α → Except ε (List β × List γ))
    (A : α → List β) (R : α → List γ)
    (hf : ∀ st a, f st a = .ok (st.1 ++ A a, st.2 ++ R a)) (l : List α) (st : List β × List γ) :
    List.foldlM f st l = .ok (st.1 ++ l.flatMap A, st.2 ++ l.flatMap R) := by
  induction l generalizing st with
  | nil => simp [pure, Except.pure]
  | cons a l ih =>
    rw [List.foldlM_cons, hf]
    show List.foldlM f (st.1 ++ A a, st.2 ++ R a) l = _
    rw [ih]; simp

/-- appending the image of the element under a condition is `filter` then `map` -/
theorem flatMap_if {α β : Type} (c : α → Bool) (g : α → β) (l : List α) :
    l.flatMap (fun a => if c a = true then [g a] else []) = (l.filter c).map g := by
  induction l with
  | nil => rfl
  | cons a l ih =>
    rw [List.flatMap_cons, ih]
    cases h : c a <;> simp [h]

/-! ## the dictionary primitives in terms of the model's `get?` -/

/-- `d[k]`: the model's lookup, or `KeyError` -/
theorem dictGet_eq (d : PyDict) (k : Nat) :
    Py.dictGet d k = (match d.get? k with | some v => .ok v | none => .error .key) := by
  unfold Py.dictGet PyDict.get?
  cases d.find? (fun kv => kv.1 == k) <;> rfl

/-- `k in d` -/
theorem contains_eq (d : PyDict) (k : Nat) : d.contains k = (d.get? k).isSome := by
  unfold PyDict.contains PyDict.get?
  induction d with
  | nil => rfl
  | cons kv rest ih =>
    cases h : kv.1 == k <;> simp [h]
    simpa using ih

/-! ## what one round of each loop appends -/

/-- first loop, to `settings_to_apply`: the new setting of an effect that is new or has changed -/
def applyOf (old : PyDict) (kv : Nat × Setting) : List Setting :=
  if (match old.get? kv.1 with | some v => v.txt != kv.2.txt | none => true) = true then [kv.2] else []

/-- first loop, to `settings_to_remove`: the old setting of an effect that has changed -/
def removeOf (old : PyDict) (kv : Nat × Setting) : List Setting :=
  match old.get? kv.1 with
  | some v => if (v.txt != kv.2.txt) = true then [v] else []
  | none => []

/-- the model's expression for the stopped objects of the changed effects is what the rounds append -/
theorem changed_eq (old new : PyDict) :
    (new.filter (fun kv => match old.get? kv.1 with
        | some v => v.txt != kv.2.txt
        | none => false)).filterMap (fun kv => old.get? kv.1) = new.flatMap (removeOf old) := by
  induction new with
  | nil => rfl
  | cons kv rest ih =>
    rw [List.flatMap_cons, ← ih, List.filter_cons]
    unfold removeOf
    cases h : old.get? kv.1 with
    | none => simp
    | some o => by_cases h' : o.txt = kv.2.txt <;> simp [h, h']

/-- second loop, to `settings_to_remove`: the old setting of an effect that is gone -/
def goneOf (new : PyDict) (kv : Nat × Setting) : List Setting :=
  if (!new.contains kv.1) = true then [kv.2] else []

end L

open L

/-- the model's `settings_to_remove` (the local `toRemove` of `AStr.setAnsiStep`, verbatim) -/
def toRemove (old new : PyDict) : List Setting :=
  ((new.filter (fun kv => match old.get? kv.1 with
      | some v => v.txt != kv.2.txt
      | none => false)).filterMap (fun kv => old.get? kv.1)) ++
    (old.filter (fun kv => !new.contains kv.1)).map (·.2)

/-- the model's `settings_to_apply` (the local `toApply` of `AStr.setAnsiStep`, verbatim) -/
def toApply (old new : PyDict) : List Setting :=
  (new.filter (fun kv => match old.get? kv.1 with
      | some v => v.txt != kv.2.txt
      | none => true)).map (·.2)

/-- the block was translated (it did not fall outside the translator's fragment) -/
theorem translated : Gen.setAnsiDiffOk = true := by decide

theorem toApply_eq (old new : PyDict) : toApply old new = new.flatMap (applyOf old) := by
  unfold toApply applyOf
  rw [flatMap_if]

theorem toRemove_eq (old new : PyDict) :
    toRemove old new = new.flatMap (removeOf old) ++ old.flatMap (goneOf new) := by
  unfold toRemove goneOf
  rw [flatMap_if, changed_eq]

set_option linter.unusedSimpArgs false in
/-- The statements of `set_ansi_str` from `settings_to_remove = []` up to `if settings_to_remove:`, as
    translated from the source, compute the two lists of the model, in the model's order, and raise
    nothing. (Argument order of the generated function: the new dictionary, then the old one.) -/
theorem diff_is_code (new old : PyDict) :
    Gen.setAnsiDiff new old = .ok (toRemove old new, toApply old new) := by
  unfold Gen.setAnsiDiff
  dsimp only
  rw [fold_append2 _ (applyOf old) (removeOf old), bind_ok]
  · dsimp only
    rw [fold_append1 _ (goneOf new), bind_ok]
    · simp only [List.nil_append, toRemove_eq, toApply_eq]
    · intro acc kv
      obtain ⟨k, v⟩ := kv
      unfold goneOf
      cases new.contains k <;> simp
  · intro st kv
    obtain ⟨ap, rm⟩ := st
    obtain ⟨k, v⟩ := kv
    unfold applyOf removeOf
    simp only [contains_eq, dictGet_eq]
    cases old.get? k with
    | none => simp
    | some o =>
      simp only [bind_ok, Option.isSome_some, if_true]
      by_cases h' : o.txt = v.txt <;> simp [h']

/-- the translated block never raises: no `KeyError` from `old_settings[setting_key]`, nothing outside
    the model's representation -/
theorem diff_never_raises (new old : PyDict) (err : Exc) : Gen.setAnsiDiff new old ≠ .error err := by
  rw [diff_is_code]
  intro h; cases h

/-- The model's step of `set_ansi_str` written with the two functions: it consumes exactly what the
    code's block computes (`diff_is_code`). -/
theorem step_uses_diff (x : AStr) (old : PyDict) (nid key : Nat) (seq : CtlSeq) (hk : key < x.len) :
    AStr.setAnsiStep (x, old, nid) key seq =
      (let new := settingsToDict ((pgsStr seq.sequence false).map (fun t => ⟨0, t⟩)) old
       let x1 := if (toRemove old new).isEmpty then x
                 else x.removeFormatting (some (texts (toRemove old new))) (some key) none
       let x2 := if (toApply old new).isEmpty then x1
                 else x1.applyFormatting (freshSettings nid (texts (toApply old new))) (some key) none true
       (x2, new, nid + (toApply old new).length)) := by
  have : ¬ key ≥ x.len := by omega
  simp only [AStr.setAnsiStep, this, if_false]
  rfl

/-- and so with the translated block itself: whatever pair it returns is what the step removes and
    applies -/
theorem step_uses_code (x : AStr) (old : PyDict) (nid key : Nat) (seq : CtlSeq) (hk : key < x.len) :
    ∃ rm ap, Gen.setAnsiDiff (settingsToDict ((pgsStr seq.sequence false).map (fun t => ⟨0, t⟩)) old) old
        = .ok (rm, ap) ∧
      AStr.setAnsiStep (x, old, nid) key seq =
        (let x1 := if rm.isEmpty then x else x.removeFormatting (some (texts rm)) (some key) none
         let x2 := if ap.isEmpty then x1
                   else x1.applyFormatting (freshSettings nid (texts ap)) (some key) none true
         (x2, settingsToDict ((pgsStr seq.sequence false).map (fun t => ⟨0, t⟩)) old, nid + ap.length)) :=
  ⟨_, _, diff_is_code _ _, step_uses_diff x old nid key seq hk⟩

/-! ## Concrete values -/

/-- bold (effect 1) and red (effect 5) before; blue (effect 5) and underline (effect 7) after -/
def old0 : PyDict := [(1, ⟨0, "1".toList⟩), (5, ⟨1, "31".toList⟩)]
def new0 : PyDict := [(5, ⟨2, "34".toList⟩), (7, ⟨3, "4".toList⟩)]

/-- the changed effect's old object first, then the effect that is gone; the applied ones in the order of
    the new dictionary -/
example : Gen.setAnsiDiff new0 old0 =
    .ok ([⟨1, "31".toList⟩, ⟨0, "1".toList⟩], [⟨2, "34".toList⟩, ⟨3, "4".toList⟩]) := by decide +kernel

example : (toRemove old0 new0, toApply old0 new0) =
    ([⟨1, "31".toList⟩, ⟨0, "1".toList⟩], [⟨2, "34".toList⟩, ⟨3, "4".toList⟩]) := by decide +kernel

/-- the same texts under other objects: nothing to do -/
example : Gen.setAnsiDiff [(5, ⟨9, "31".toList⟩), (1, ⟨8, "1".toList⟩)] old0 = .ok ([], []) := by decide +kernel

/-- everything gone (after a reset): the old objects in the order of the old dictionary -/
example : Gen.setAnsiDiff [] old0 = .ok ([⟨0, "1".toList⟩, ⟨1, "31".toList⟩], []) := by decide +kernel

/-- a dictionary with a repeated key (never produced by `settings_to_dict`, but allowed by the type): both
    sides look the first pair up -/
example : Gen.setAnsiDiff [(5, ⟨2, "34".toList⟩), (5, ⟨3, "31".toList⟩)] [(5, ⟨1, "31".toList⟩), (5, ⟨0, "34".toList⟩)] =
    .ok ([⟨1, "31".toList⟩], [⟨2, "34".toList⟩]) := by decide +kernel

/-- the hypothesis of `step_uses_diff` is satisfiable -/
example : (1 : Nat) < ({ s := "abc".toList, fmts := [] } : AStr).len := by decide

end C02c

#print axioms C02c.translated
#print axioms C02c.diff_is_code
#print axioms C02c.diff_never_raises
#print axioms C02c.step_uses_diff
#print axioms C02c.step_uses_code
