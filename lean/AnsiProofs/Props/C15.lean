import AnsiProofs.Lemmas.Scrub
/-
  Property C15 — `AnsiSetting.valid` is True exactly when the text contains no character in
  0x40–0x7E; `parsable` is True exactly when the text is one complete known SGR parameter group
  other than reset; `is_formatting_valid()` / `is_formatting_parsable()` are their conjunction over
  the settings in use; AnsiFormat members, known non-reset codes and in-range helper results are
  always valid and parsable.

  The declarative grammar `Grammar.group` is written with the *specification's* tokenizer functions
  (`Term.splitSemi`, `Term.trim`, `Term.isDigit`, `Term.decimal`, `Term.specEffect` of
  `AnsiSpec/Terminal.lean`), not with the model's primitives.
-/
open ScrubL

namespace C15

/-! ## T8 — `valid` -/

/-- `valid` ⇔ no character of the text is a control-sequence terminator (0x40–0x7E) -/
theorem valid_iff (t : Str) :
    SettingTxt.valid t = true ↔ ∀ c ∈ t, ¬ (0x40 ≤ c.toNat ∧ c.toNat ≤ 0x7E) := by
  have e1 : Gen.termLo = 0x40 := rfl
  have e2 : Gen.termHi = 0x7E := rfl
  simp only [SettingTxt.valid, isTerm, e1, e2, List.all_eq_true, Bool.not_eq_true', Bool.and_eq_false_iff,
    decide_eq_false_iff_not]
  constructor <;> intro h c hc <;> have := h c hc <;> omega

example : SettingTxt.valid "38;2;1;2;3".toList = true := by decide
example : SettingTxt.valid "1m".toList = false := by decide

/-! ## T9 — `parsable` ⇔ the grammar of one SGR parameter group -/

namespace Grammar

/-- the items of a setting text: split on `;`, ASCII whitespace stripped around each item -/
def items (t : Str) : List Str := (Term.splitSemi t).map Term.trim

/-- One complete known SGR parameter group other than reset:
    every item is a non-empty run of ASCII digits, every value is ≤ 255, the first value is a
    known parameter other than 0; 38/48/58 are followed by exactly `5;n` or `2;r;g;b`, every other
    code stands alone. -/
def group (t : Str) : Prop :=
  (∀ it ∈ items t, it ≠ [] ∧ ∀ c ∈ it, Term.isDigit c = true) ∧
  (∀ it ∈ items t, Term.decimal it ≤ 255) ∧
  ∃ first rest, (items t).map Term.decimal = first :: rest ∧
    first ≠ 0 ∧ Term.specEffect first ≠ none ∧
    (if first = 38 ∨ first = 48 ∨ first = 58 then
       (∃ n, rest = [5, n]) ∨ (∃ r g b, rest = [2, r, g, b])
     else rest = [])

end Grammar

theorem parsable_iff (t : Str) : SettingTxt.parsable t = true ↔ Grammar.group t := by
  have hit : Grammar.items t = ScrubL.items t := by
    simp only [Grammar.items, ScrubL.items, splitSemi_eq]; rfl
  rw [parsable_iff_items]
  unfold Grammar.group groupVals
  rw [hit]
  simp only [isdigit_iff, termIsDigit_eq, List.mem_map, forall_exists_index, and_imp,
    forall_apply_eq_imp_iff₂]
  exact Iff.rfl

/-- the table of `AnsiParam` agrees with the specification's code table on 0..255 -/
theorem known_codes_agree : ∀ c : Nat, c ≤ 255 → (ansiParam (c : Int) ≠ none ↔ Term.specEffect c ≠ none) := by
  intro c hc
  have := ansiParam_spec hc
  cases h1 : ansiParam (c : Int) <;> cases h2 : Term.specEffect c <;> simp_all

theorem ctrl_fns : Gen.ctrlFns = [([38,5],1), ([38,2],3), ([48,5],1), ([48,2],3), ([58,5],1), ([58,2],3)] :=
  ctrlFns_eq

/-- consequence: a parsable text is valid -/
theorem parsable_valid (t : Str) (h : SettingTxt.parsable t = true) : SettingTxt.valid t = true := by
  rw [parsable_eq, Bool.and_eq_true] at h; exact h.1

example : SettingTxt.parsable "38;5;7".toList = true := by decide +kernel

-- non-vacuity of both directions
example : Grammar.group "38;2;1;2;3".toList := (parsable_iff _).1 (by decide +kernel)
example : Grammar.group " 1 ".toList := (parsable_iff _).1 (by decide +kernel)
example : ¬ Grammar.group "1 m".toList := fun h => absurd ((parsable_iff _).2 h) (by decide +kernel)
example : ¬ Grammar.group "0".toList := fun h => absurd ((parsable_iff _).2 h) (by decide +kernel)
example : ¬ Grammar.group "38;5".toList := fun h => absurd ((parsable_iff _).2 h) (by decide +kernel)
example : ¬ Grammar.group "38;5;256".toList := fun h => absurd ((parsable_iff _).2 h) (by decide +kernel)
example : ¬ Grammar.group "1;2".toList := fun h => absurd ((parsable_iff _).2 h) (by decide +kernel)
example : ¬ Grammar.group "".toList := fun h => absurd ((parsable_iff _).2 h) (by decide +kernel)

/-! ## T10 — `is_formatting_valid()` / `is_formatting_parsable()` -/

theorem formatting_valid_iff (x : AStr) :
    x.isFormattingValid = true ↔ ∀ kp ∈ x.fmts, ∀ s ∈ kp.2.add, SettingTxt.valid s.txt = true := by
  simp [AStr.isFormattingValid, List.all_eq_true]

theorem formatting_parsable_iff (x : AStr) :
    x.isFormattingParsable = true ↔ ∀ kp ∈ x.fmts, ∀ s ∈ kp.2.add, SettingTxt.parsable s.txt = true := by
  simp [AStr.isFormattingParsable, List.all_eq_true]

/-! ## T11 — members, codes and helper results are valid and parsable -/

set_option maxRecDepth 100000 in
theorem members_parsable_check :
    Gen.formatTable.all (fun r => r.2.all (fun t => SettingTxt.valid t && SettingTxt.parsable t)) = true := by
  scrubl_table_decide

theorem members_parsable : ∀ r ∈ Gen.formatTable, ∀ t ∈ r.2,
    SettingTxt.valid t = true ∧ SettingTxt.parsable t = true := by
  have := members_parsable_check
  simp only [List.all_eq_true, Bool.and_eq_true] at this
  exact this

example : ("ALICE_BLUE".toList, ["38;2;240;248;255".toList]) ∈ Gen.formatTable := by
  unfold Gen.formatTable; exact List.mem_cons_self ..

theorem codes_parsable_check : (List.range 256).all (fun c =>
    c == 0 || [38, 48, 58].contains c || (ansiParam (c : Int)).isNone ||
      SettingTxt.parsable (Py.natStr c)) = true := by decide +kernel

theorem codes_parsable : ∀ c : Nat, c < 256 → c ≠ 0 → c ∉ [38, 48, 58] → ansiParam (c : Int) ≠ none →
    SettingTxt.parsable (Py.natStr c) = true := by
  intro c hc h0 hx hp
  have := codes_parsable_check
  rw [List.all_eq_true] at this
  have := this c (by simpa using hc)
  cases hq : ansiParam (c : Int) with
  | none => exact absurd hq hp
  | some _ => simp_all

example : (1 : Nat) < 256 ∧ (1 : Nat) ≠ 0 ∧ (1 : Nat) ∉ [38, 48, 58] ∧ ansiParam ((1 : Nat) : Int) ≠ none := by
  decide +kernel

/-- `AnsiFormat.rgb(r, g, b, component)` with in-range components: every setting is parsable
    (component 0 FOREGROUND, 1 BACKGROUND, 2 UNDERLINE, 3 DOUBLE_UNDERLINE) -/
theorem rgb_helper_parsable (comp r g b : Nat) (hc : comp < 4) (hr : r ≤ 255) (hg : g ≤ 255) (hb : b ≤ 255) :
    ∀ t ∈ Scrub.colorSettings comp true [r, g, b], SettingTxt.parsable t = true := by
  have key : ∀ c, c = 38 ∨ c = 48 ∨ c = 58 → SettingTxt.parsable (Scrub.joinNats [c, 2, r, g, b]) = true := by
    intro c hc
    rw [parsable_joinNats (by simp)]
    refine ⟨?_, c, [2, r, g, b], rfl, ?_, ?_, ?_⟩
    · intro v hv; simp at hv; omega
    · omega
    · rcases hc with rfl | rfl | rfl <;> decide
    · rw [if_pos hc]; exact Or.inr ⟨r, g, b, rfl⟩
  have e0 : Scrub.setupSeq 1 = [38, 2] := by decide
  have e1 : Scrub.setupSeq 3 = [48, 2] := by decide
  have e2 : Scrub.setupSeq 5 = [58, 2] := by decide
  have u1 : SettingTxt.parsable (Py.natStr Gen.paramUnderline) = true := by decide +kernel
  have u2 : SettingTxt.parsable (Py.natStr Gen.paramDoubleUnderline) = true := by decide +kernel
  have : comp = 0 ∨ comp = 1 ∨ comp = 2 ∨ comp = 3 := by omega
  rcases this with rfl | rfl | rfl | rfl <;>
    simp [Scrub.colorSettings, e0, e1, e2, u1, u2, key]

example : (2 : Nat) < 4 ∧ (255 : Nat) ≤ 255 ∧ (0 : Nat) ≤ 255 := by decide
example : Scrub.colorSettings 2 true [255, 0, 7] = ["4".toList, "58;2;255;0;7".toList] := by decide +kernel

/-- `AnsiFormat.color256(n, component)` with `n ≤ 255` -/
theorem color256_helper_parsable (comp n : Nat) (hc : comp < 4) (hn : n ≤ 255) :
    ∀ t ∈ Scrub.colorSettings comp false [n], SettingTxt.parsable t = true := by
  have key : ∀ c, c = 38 ∨ c = 48 ∨ c = 58 → SettingTxt.parsable (Scrub.joinNats [c, 5, n]) = true := by
    intro c hc
    rw [parsable_joinNats (by simp)]
    refine ⟨?_, c, [5, n], rfl, ?_, ?_, ?_⟩
    · intro v hv; simp at hv; omega
    · omega
    · rcases hc with rfl | rfl | rfl <;> decide
    · rw [if_pos hc]; exact Or.inl ⟨n, rfl⟩
  have e0 : Scrub.setupSeq 0 = [38, 5] := by decide
  have e1 : Scrub.setupSeq 2 = [48, 5] := by decide
  have e2 : Scrub.setupSeq 4 = [58, 5] := by decide
  have u1 : SettingTxt.parsable (Py.natStr Gen.paramUnderline) = true := by decide +kernel
  have u2 : SettingTxt.parsable (Py.natStr Gen.paramDoubleUnderline) = true := by decide +kernel
  have : comp = 0 ∨ comp = 1 ∨ comp = 2 ∨ comp = 3 := by omega
  rcases this with rfl | rfl | rfl | rfl <;>
    simp [Scrub.colorSettings, e0, e1, e2, u1, u2, key]

/-- out-of-range helper results are *not* parsable (the range condition is needed) -/
example : SettingTxt.parsable (Scrub.joinNats [38, 5, 256]) = false := by decide +kernel

end C15

#print axioms C15.valid_iff
#print axioms C15.parsable_iff
#print axioms C15.formatting_valid_iff
#print axioms C15.formatting_parsable_iff
#print axioms C15.members_parsable
#print axioms C15.codes_parsable
#print axioms C15.rgb_helper_parsable
#print axioms C15.color256_helper_parsable
