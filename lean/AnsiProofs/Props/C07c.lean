import AnsiModel.Generated.Methods.RemoveCore
import AnsiProofs.Props.C06d
import AnsiProofs.Props.C09c
import AnsiProofs.Props.C15c
import AnsiProofs.Lemmas.Remove

/-
  Property C07, part c — the *generated* (statement-by-statement translated) body of
  `AnsiString.remove_formatting` (`Gen.removeCore` of `AnsiModel/Generated/Methods.lean`: everything after
  the settings have been scrubbed) against the hand-written model `AStr.removeFormatting`
  (`removeLoop`, `removeAtStart`, `removeRems`, `selected` of `AnsiModel/Format.lean`).

  Result (`removeCore_eq`): on a value whose table is sorted, and when the guard at the top of
  `remove_formatting` lets the statements run,

      Gen.removeCore x A st en = if loopOk … then .ok (x.removeFormatting (A.map texts) s e)
                                 else .error (.py .indexError)

  where `L.loopOk` is a Boolean function of the *model* (the replay of the table): "the `while` loop at
  `end` (`while carried_settings[0] not in removed_settings: del carried_settings[0]`) finds an element".
  The model uses `dropWhile`, which is total; the code raises IndexError when the list is used up.  Hence
    1. `removeCore_sound`     — whenever the code returns, it returns the model's value;
    2. `removeCore_outcomes`  — it returns the model's value or raises IndexError: never KeyError
                                 (`Exc.key`), never anything outside the model (`Exc.outside`);
    3. `removeCore_is_code`   — on a well-formed value (`WF`) it returns the model's value
                                 (`L.loopOk_of_WF`: the entry left in `removed_settings` is an active
                                 setting that is neither stopped nor started at `end`, so it is in the list the
                                 loop walks); `removeCore_is_code_partial` is the exact criterion (`↔ loopOk`);
    and `xBad` below is a sorted, ill-formed table (one object started twice) on which the code does raise.

  Layout:
  * `namespace C07c.L` — nothing here mentions `Gen.removeCore`.  Primitives of `AnsiModel/Obj.lean` on
    natural indices (`get_of_get?`, `modifyAt_of_get?`, `getIdx_nat`, `delIdx_nat`, `del_found`,
    `dropWhileHead_eq`, `sliceAssign_zero`, `rangeDesc_succ`), `s in ansi_settings` is `selected`
    (`hasTxt_eq_contains`, `selected_some`), and one fold lemma per loop, each for an *arbitrary* loop body
    meeting a spec predicate:
      `StartSpec`/`fold_start`  (`for s in current_settings` at `start`   = `removeAtStart`),
      `RemsSpec`/`fold_rems`    (`for i in reversed(range(len(rem)))`       = `removeRems`),
      `MidSpec`/`fold_mid`      (`for i in reversed(range(len(add)))`       = two `filter`s),
      `OuterSpec`/`fold_outer`  (the loop over the keys with `break`        = `removeLoop` over `replay`;
                                 needs `SortedKeys`: the point under the key is still the original one),
    then `core_frame` (initial state, dropping the empty points) and the totality part
    (`endOk_true`, `loopOk_spec` — the induction of `Remove.removeLoop_spec` —, `loopOk_of_WF`).
  * `namespace C07c` — `removeCore_eq` unfolds the generated definition, peels the two `ensure` statements
    off, applies `core_frame` and discharges the specs for the generated lambdas by
    `intro`/`simp`/`cases`; the other theorems are corollaries.  The script of `removeCore_eq` was run
    unchanged against a rewritten variant of the generated function (`if start in self._fmts: pass else:`,
    `not (idx >= start)`, `end < idx`, `start == idx`, `if idx != end:` with the branches swapped,
    `len(removed_settings) > 0`, `if rem_idx < 0: continue`, `if ansi_settings is not None:` first with
    `if s not in …: continue` and `add_idx >= 0`, `removed_settings.append(s)` hoisted, the element bound
    before the test in the last loop, no trailing rebinding of `self`) and passed.
-/

namespace C07c
namespace L
open C06d.L Remove

/-! ## `Except` glue -/

theorem bind_error {ε α β : Type} (e : ε) (f : α → Except ε β) :
    (Except.error e : Except ε α).bind f = .error e := rfl

/-- both branches of an `if` end normally -/
theorem ite_ok_gen {ε α : Type} (c : Prop) [Decidable c] (a b : α) :
    (if c then (Except.ok a : Except ε α) else .ok b) = .ok (if c then a else b) := by
  split <;> rfl

theorem pure_ok {α : Type} (a : α) : (pure a : Except Exc α) = .ok a := rfl

/-- a loop whose body never raises is a `foldl` -/
theorem foldlM_total {σ α : Type} {step : σ → α → Except Exc σ} {g : σ → α → σ}
    (h : ∀ a x, step a x = .ok (g a x)) (l : List α) (a : σ) :
    List.foldlM step a l = .ok (l.foldl g a) := by
  induction l generalizing a with
  | nil => rfl
  | cons x l ih =>
    rw [List.foldlM_cons, h a x, List.foldl_cons]
    exact ih _

/-! ## Primitives of `AnsiModel/Obj.lean` -/

theorem get_of_get? {f : Fmts} {k : Nat} {p : Point} (h : f.get? k = some p) :
    Obj.get f (k : Int) = .ok p := by
  unfold Obj.get
  have : ¬ ((k : Int) < 0) := by omega
  rw [if_neg this, Int.toNat_natCast, h]

theorem modifyAt_of_get? {f : Fmts} {k : Nat} {p : Point} (g : Point → Point) (h : f.get? k = some p) :
    Obj.modifyAt f (k : Int) g = .ok (f.modify k g) := by
  unfold Obj.modifyAt
  have : ¬ ((k : Int) < 0) := by omega
  rw [if_neg this, Int.toNat_natCast, h]

theorem getIdx_nat {α : Type} {l : List α} {i : Nat} {a : α} (h : l[i]? = some a) :
    Py.getIdx l (i : Int) = .ok a := by
  unfold Py.getIdx
  have h1 : ¬ ((i : Int) < 0) := by omega
  simp only [h1, if_false, Int.toNat_natCast, h]

theorem delIdx_nat {α : Type} {l : List α} {i : Nat} (h : i < l.length) :
    Py.delIdx l (i : Int) = .ok (l.eraseIdx i) := by
  unfold Py.delIdx
  have h1 : (0 : Int) ≤ (i : Int) ∧ (i : Int) < (l.length : Int) := by omega
  rw [if_pos h1, Int.toNat_natCast]

theorem lt_of_getElem? {α : Type} {l : List α} {i : Nat} {a : α} (h : l[i]? = some a) : i < l.length := by
  have := List.getElem?_eq_some_iff.mp h
  exact this.1

/-- `del l[i]` at the index `_find_setting_reference` found is the model's `eraseId` -/
theorem del_found {c : List Setting} {s : Setting} (h : hasId c s.id = true) :
    Py.delIdx c (Gen.findSettingReference s c) = .ok (eraseId c s.id) := by
  rw [C05c.find_reference_index]
  unfold eraseId
  rw [List.eraseP_eq_eraseIdx]
  cases hf : c.findIdx? (fun x => x.id == s.id) with
  | none =>
    exfalso
    rw [List.findIdx?_eq_none_iff] at hf
    obtain ⟨t, ht, e⟩ := hasId_iff.mp h
    have := hf t ht
    simp [e] at this
  | some i =>
    have hi : i < c.length := (List.findIdx?_eq_some_iff_getElem.mp hf).1
    exact delIdx_nat hi

/-- `while c(l[0]): del l[0]`: IndexError when every element satisfies `c`, else `dropWhile` -/
theorem dropWhileHead_eq {α : Type} (c : α → Bool) (l : List α) :
    Py.dropWhileHead c l = if l.all c then .error (.py .indexError) else .ok (l.dropWhile c) := by
  induction l with
  | nil => rfl
  | cons a l ih =>
    unfold Py.dropWhileHead
    cases h : c a with
    | true => simp [h, ih]
    | false => simp [h]

/-- `_find_setting_reference(s, l) >= 0` / `< 0` as propositions (the forms `simp` normalises to) -/
theorem find_nonneg_iff (s : Setting) (l : List Setting) :
    0 ≤ Gen.findSettingReference s l ↔ hasId l s.id = true := by
  have := find_ge_zero s l
  rw [← this]
  simp

theorem find_neg_iff (s : Setting) (l : List Setting) :
    Gen.findSettingReference s l < 0 ↔ hasId l s.id = false := by
  have := find_nonneg_iff s l
  cases h : hasId l s.id <;> simp [h] at this ⊢ <;> omega

/-- comparing two keys that are natural numbers, as integers: every atom decided -/
theorem cmp_lt {a b : Nat} (h : a < b) :
    ((a : Int) < b) ∧ ((a : Int) ≤ b) ∧ ((a : Int) ≠ b) ∧ ((b : Int) ≠ a) ∧ ¬ ((b : Int) < a) ∧
      ¬ ((b : Int) ≤ a) := by omega

theorem cmp_self (a : Nat) : ¬ ((a : Int) < a) ∧ ((a : Int) ≤ a) ∧ ((a : Int) = a) := by omega

theorem sliceAssign_zero {α : Type} (l P : List α) : Py.sliceAssign l 0 0 P = P ++ l := by
  have := sliceAssign_nat l 0 P
  simpa using this

theorem rangeDesc_zero : Py.rangeDesc ((0 : Nat) : Int) = [] := rfl

theorem rangeDesc_succ (n : Nat) : Py.rangeDesc ((n + 1 : Nat) : Int) = (n : Int) :: Py.rangeDesc (n : Int) := by
  unfold Py.rangeDesc
  simp [List.range_succ]

/-! ## `s in ansi_settings` and `selected` -/

theorem hasTxt_eq_contains (l : List Setting) (t : Str) : hasTxt l t = (texts l).contains t := by
  unfold hasTxt texts
  induction l with
  | nil => rfl
  | cons a l ih =>
    simp only [List.any_cons, List.map_cons, List.contains_cons, ih]
    rw [Bool.beq_comm]

theorem selected_none (s : Setting) : AStr.selected none s = true := rfl

theorem selected_some (l : List Setting) (s : Setting) :
    AStr.selected (some (texts l)) s = hasTxt l s.txt := by
  rw [hasTxt_eq_contains]; rfl

/-! ## The three inner loops, each for an arbitrary loop body meeting a spec -/

/-- one round of `for s in current_settings` at `start`: what `rasStep` says -/
def StartSpec (M : Option (List Str))
    (step : Point × List Setting → Setting → Except Exc (Point × List Setting)) : Prop :=
  ∀ acc s, step acc s = .ok (rasStep M acc s)

theorem fold_start {M : Option (List Str)} {step : Point × List Setting → Setting → Except Exc (Point × List Setting)}
    (h : StartSpec M step) (p : Point) (R cur : List Setting) :
    List.foldlM step (p, R) cur = .ok (AStr.removeAtStart M p R cur) := by
  rw [foldlM_total h, removeAtStart_eq]

/-- one round of `for i in reversed(range(len(settings_point.rem)))`: the stop marker at `i` goes away
    together with its entry in `removed_settings`, when there is one -/
def RemsSpec (step : List Setting × Point → Int → Except Exc (List Setting × Point)) : Prop :=
  ∀ (R : List Setting) (sp : Point) (i : Nat) (s : Setting), sp.rem[i]? = some s →
    step (R, sp) (i : Int) =
      .ok (if hasId R s.id then (eraseId R s.id, { sp with rem := sp.rem.eraseIdx i }) else (R, sp))

def remsF (s : Setting) (acc : List Setting × List Setting) : List Setting × List Setting :=
  if hasId acc.2 s.id then (acc.1, eraseId acc.2 s.id) else (s :: acc.1, acc.2)

theorem removeRems_eq_foldr (rem R : List Setting) : AStr.removeRems rem R = rem.foldr remsF ([], R) := rfl

theorem fold_rems_aux {step : List Setting × Point → Int → Except Exc (List Setting × Point)}
    (h : RemsSpec step) (a : List Setting) :
    ∀ (rp kept R : List Setting),
      List.foldlM step (R, { add := a, rem := rp.reverse ++ kept }) (Py.rangeDesc (rp.length : Int)) =
        .ok ((rp.reverse.foldr remsF (kept, R)).2,
             { add := a, rem := (rp.reverse.foldr remsF (kept, R)).1 }) := by
  intro rp
  induction rp with
  | nil => intro kept R; rfl
  | cons s rp ih =>
    intro kept R
    have hget : (({ add := a, rem := (s :: rp).reverse ++ kept } : Point).rem)[rp.length]? = some s := by
      simp
    have herase : ((s :: rp).reverse ++ kept).eraseIdx rp.length = rp.reverse ++ kept := by
      rw [List.reverse_cons, List.append_assoc, List.eraseIdx_append_of_length_le (by simp)]
      simp
    rw [List.length_cons, rangeDesc_succ, List.foldlM_cons, h _ _ _ _ hget]
    show List.foldlM step _ _ = _
    rw [List.reverse_cons, List.foldr_append, List.foldr_cons, List.foldr_nil]
    simp only [← List.reverse_cons, herase]
    have hf : remsF s (kept, R) = if hasId R s.id then (kept, eraseId R s.id) else (s :: kept, R) := rfl
    rw [hf]
    cases hh : hasId R s.id with
    | true =>
      simp only [if_true]
      exact ih kept (eraseId R s.id)
    | false =>
      simp only [Bool.false_eq_true, if_false]
      have := ih (s :: kept) R
      simpa [List.reverse_cons, List.append_assoc] using this

/-- THE LOOP over the stop markers of one point is the model's `removeRems` -/
theorem fold_rems {step : List Setting × Point → Int → Except Exc (List Setting × Point)}
    (h : RemsSpec step) (R : List Setting) (sp : Point) :
    List.foldlM step (R, sp) (Py.rangeDesc (sp.rem.length : Int)) =
      .ok ((AStr.removeRems sp.rem R).2, { sp with rem := (AStr.removeRems sp.rem R).1 }) := by
  have := fold_rems_aux h sp.add sp.rem.reverse [] R
  simp only [List.reverse_reverse, List.append_nil, List.length_reverse] at this
  rw [removeRems_eq_foldr]
  exact this

/-- one round of `for i in reversed(range(len(settings_point.add)))` strictly inside the range: a selected
    start marker goes away and is noted in `removed_settings` -/
def MidSpec (M : Option (List Str))
    (step : Point × List Setting → Int → Except Exc (Point × List Setting)) : Prop :=
  ∀ (sp : Point) (R : List Setting) (i : Nat) (s : Setting), sp.add[i]? = some s →
    step (sp, R) (i : Int) =
      .ok (if AStr.selected M s then ({ sp with add := sp.add.eraseIdx i }, R ++ [s]) else (sp, R))

theorem fold_mid_aux {M : Option (List Str)}
    {step : Point × List Setting → Int → Except Exc (Point × List Setting)}
    (h : MidSpec M step) (r : List Setting) :
    ∀ (rp kept R : List Setting),
      List.foldlM step ({ add := rp.reverse ++ kept, rem := r }, R) (Py.rangeDesc (rp.length : Int)) =
        .ok ({ add := rp.reverse.filter (fun s => !AStr.selected M s) ++ kept, rem := r },
             R ++ (rp.reverse.filter (AStr.selected M)).reverse) := by
  intro rp
  induction rp with
  | nil => intro kept R; simp; rfl
  | cons s rp ih =>
    intro kept R
    have hget : (({ add := (s :: rp).reverse ++ kept, rem := r } : Point).add)[rp.length]? = some s := by
      simp
    have herase : ((s :: rp).reverse ++ kept).eraseIdx rp.length = rp.reverse ++ kept := by
      rw [List.reverse_cons, List.append_assoc, List.eraseIdx_append_of_length_le (by simp)]
      simp
    rw [List.length_cons, rangeDesc_succ, List.foldlM_cons, h _ _ _ _ hget]
    show List.foldlM step _ _ = _
    simp only [herase]
    cases hh : AStr.selected M s with
    | true =>
      simp only [if_true]
      rw [ih kept (R ++ [s])]
      simp [List.filter_append, hh]
    | false =>
      simp only [Bool.false_eq_true, if_false]
      have := ih (s :: kept) R
      simpa [List.reverse_cons, List.append_assoc, List.filter_append, hh] using this

/-- THE LOOP over the start markers of a point inside the range is two `filter`s -/
theorem fold_mid {M : Option (List Str)}
    {step : Point × List Setting → Int → Except Exc (Point × List Setting)}
    (h : MidSpec M step) (sp : Point) (R : List Setting) :
    List.foldlM step (sp, R) (Py.rangeDesc (sp.add.length : Int)) =
      .ok ({ sp with add := sp.add.filter (fun s => !AStr.selected M s) },
           R ++ (sp.add.filter (AStr.selected M)).reverse) := by
  have := fold_mid_aux h sp.rem sp.add.reverse [] R
  simp only [List.reverse_reverse, List.append_nil, List.length_reverse] at this
  exact this

/-! ## The outer loop over the keys of the table -/

/-- the state of the translated loop: the object, `removed_settings`, the iterator's `current_settings`,
    and "a `break` has been executed" -/
abbrev St := AStr × List Setting × List Setting × Bool

theorem replayFrom_untag (c : List Setting) (f : Fmts) :
    (replayFrom c f).map (fun t => (t.1, t.2.1)) = f := by
  induction f generalizing c with
  | nil => rfl
  | cons kp f ih =>
    obtain ⟨k, p⟩ := kp
    simp only [replayFrom, List.map_cons, ih]

theorem get?_mid {A : Fmts} {k : Nat} (p : Point) (D : Fmts) (hA : ∀ x ∈ A, x.1 < k) :
    Fmts.get? (A ++ (k, p) :: D) k = some p := by
  induction A with
  | nil => simp [Fmts.get?]
  | cons a A ih =>
    obtain ⟨k', p'⟩ := a
    have h1 : k' < k := hA (k', p') (by simp)
    have h2 : ¬ k' = k := by omega
    have h3 : ¬ k < k' := by omega
    rw [List.cons_append, Fmts.get?_cons]
    simp only [h2, h3, if_false]
    exact ih (fun x hx => hA x (List.mem_cons_of_mem _ hx))

theorem modify_mid {A : Fmts} {k : Nat} (p : Point) (D : Fmts) (g : Point → Point)
    (hA : ∀ x ∈ A, x.1 < k) : Fmts.modify (A ++ (k, p) :: D) k g = A ++ (k, g p) :: D := by
  induction A with
  | nil => simp [Fmts.modify]
  | cons a A ih =>
    obtain ⟨k', p'⟩ := a
    have h1 : k' < k := hA (k', p') (by simp)
    have h2 : ¬ k' = k := by omega
    rw [List.cons_append]
    unfold Fmts.modify
    simp only [h2, if_false, List.cons_append]
    rw [ih (fun x hx => hA x (List.mem_cons_of_mem _ hx))]

/-- does the `while` loop at `end` find an element (`false` = IndexError) -/
def endOk (n en : Nat) (p : Point) (R cur : List Setting) : Bool :=
  !(decide (en ≠ n) && !(AStr.removeRems p.rem R).2.isEmpty &&
    (cur.filter (fun x => !hasId p.add x.id)).all (fun x => !hasId (AStr.removeRems p.rem R).2 x.id))

/-- does one round of the loop end normally -/
def roundOk (st en n k : Nat) (p : Point) (R cur : List Setting) : Bool :=
  if ¬ k < st ∧ k ≠ st ∧ k = en then endOk n en p R cur else true

/-- the model's round: the new point under the key, the new `removed_settings`, `break` -/
def roundPt (M : Option (List Str)) (st en n k : Nat) (p : Point) (R cur : List Setting) :
    Point × List Setting × Bool :=
  if k < st then (p, R, false)
  else if k > en then (p, R, true)
  else if k = st then ((AStr.removeAtStart M p R cur).1, (AStr.removeAtStart M p R cur).2, false)
  else if k = en then (endPt n en p R cur, (AStr.removeRems p.rem R).2, false)
  else (midPt M p R, midR M p R, false)

/-- What one round of the loop over the keys has to do, whatever it looks like, on a key that is present
    (`p` the point under it, `c` the iterator's settings before it): -/
structure OuterSpec (M : Option (List Str)) (st en : Nat) (s : Str) (step : St → Int → Except Exc St) : Prop where
  /-- after `break` nothing happens -/
  done : ∀ a R c k, step (a, R, c, true) k = .ok (a, R, c, true)
  /-- before `start`: the point is kept -/
  before : ∀ (F : Fmts) (R c : List Setting) (k : Nat) (p : Point), F.get? k = some p → k < st →
    step (⟨s, F⟩, R, c, false) (k : Int) = .ok (⟨s, F.modify k (fun _ => p)⟩, R, stepPoint c p, false)
  /-- behind `end`: the point is kept, `break` -/
  after : ∀ (F : Fmts) (R c : List Setting) (k : Nat) (p : Point), F.get? k = some p → ¬ k < st → k > en →
    step (⟨s, F⟩, R, c, false) (k : Int) = .ok (⟨s, F.modify k (fun _ => p)⟩, R, stepPoint c p, true)
  /-- at `start` -/
  start : ∀ (F : Fmts) (R c : List Setting) (k : Nat) (p : Point), F.get? k = some p → ¬ k < st → ¬ k > en →
    k = st →
    step (⟨s, F⟩, R, c, false) (k : Int) =
      .ok (⟨s, F.modify k (fun _ => (AStr.removeAtStart M p R (stepPoint c p)).1)⟩,
           (AStr.removeAtStart M p R (stepPoint c p)).2, stepPoint c p, false)
  /-- at `end`: the only place where an exception can come from -/
  atEnd : ∀ (F : Fmts) (R c : List Setting) (k : Nat) (p : Point), F.get? k = some p → ¬ k < st → ¬ k > en →
    k ≠ st → k = en →
    step (⟨s, F⟩, R, c, false) (k : Int) =
      if endOk s.length en p R (stepPoint c p) then
        .ok (⟨s, F.modify k (fun _ => endPt s.length en p R (stepPoint c p))⟩,
             (AStr.removeRems p.rem R).2, stepPoint c p, false)
      else .error (.py .indexError)
  /-- strictly inside -/
  mid : ∀ (F : Fmts) (R c : List Setting) (k : Nat) (p : Point), F.get? k = some p → ¬ k < st → ¬ k > en →
    k ≠ st → k ≠ en →
    step (⟨s, F⟩, R, c, false) (k : Int) =
      .ok (⟨s, F.modify k (fun _ => midPt M p R)⟩, midR M p R, stepPoint c p, false)

/-- the six clauses in one -/
theorem OuterSpec.round {M : Option (List Str)} {st en : Nat} {s : Str} {step : St → Int → Except Exc St}
    (h : OuterSpec M st en s step) (F : Fmts) (R c : List Setting) (k : Nat) (p : Point)
    (hg : F.get? k = some p) :
    step (⟨s, F⟩, R, c, false) (k : Int) =
      if roundOk st en s.length k p R (stepPoint c p) then
        .ok (⟨s, F.modify k (fun _ => (roundPt M st en s.length k p R (stepPoint c p)).1)⟩,
             (roundPt M st en s.length k p R (stepPoint c p)).2.1, stepPoint c p,
             (roundPt M st en s.length k p R (stepPoint c p)).2.2)
      else .error (.py .indexError) := by
  unfold roundOk roundPt
  by_cases h1 : k < st
  · simp only [h1, not_true_eq_false, false_and, if_false, if_true]
    exact h.before F R c k p hg h1
  · by_cases h2 : k > en
    · have h2' : ¬ k = en := by omega
      simp only [h1, h2, h2', not_false_eq_true, and_false, if_false, if_true]
      exact h.after F R c k p hg h1 h2
    · by_cases h3 : k = st
      · rw [h.start F R c k p hg h1 h2 h3]
        subst h3
        simp only [h2, Nat.lt_irrefl, ne_eq, not_true_eq_false, false_and, and_false, if_false, if_true]
      · by_cases h4 : k = en
        · rw [h.atEnd F R c k p hg h1 h2 h3 h4]
          subst h4
          simp only [h1, h3, gt_iff_lt, Nat.lt_irrefl, ne_eq, not_false_eq_true, and_self, if_true, if_false]
        · rw [h.mid F R c k p hg h1 h2 h3 h4]
          simp only [h1, h2, h3, h4, ne_eq, not_false_eq_true, and_false, if_false, if_true]

/-- does the whole loop end normally (`false` = IndexError at `end`) -/
def loopOk (M : Option (List Str)) (st en n : Nat) :
    List Setting → List (Nat × Point × List Setting) → Bool
  | _, [] => true
  | R, (k, p, cur) :: rest =>
    roundOk st en n k p R cur &&
      (if (roundPt M st en n k p R cur).2.2 then true
       else loopOk M st en n (roundPt M st en n k p R cur).2.1 rest)

/-- the model's loop, one round unfolded, in terms of `roundPt` -/
theorem removeLoop_round (M : Option (List Str)) (st en n : Nat) (R : List Setting) (k : Nat) (p : Point)
    (cur : List Setting) (rest : List (Nat × Point × List Setting)) :
    AStr.removeLoop M st en n R ((k, p, cur) :: rest) =
      (k, (roundPt M st en n k p R cur).1) ::
        (if (roundPt M st en n k p R cur).2.2 then rest.map (fun t => (t.1, t.2.1))
         else AStr.removeLoop M st en n (roundPt M st en n k p R cur).2.1 rest) := by
  rw [removeLoop_cons]
  unfold roundPt
  by_cases h1 : k < st
  · simp [h1]
  · by_cases h2 : k > en
    · simp [h1, h2]
    · by_cases h3 : k = st
      · subst h3
        simp [h2]
      · by_cases h4 : k = en
        · subst h4
          simp [h1, h3]
        · simp [h1, h2, h3, h4]

theorem fold_done {M : Option (List Str)} {st en : Nat} {s : Str} {step : St → Int → Except Exc St}
    (h : OuterSpec M st en s step) (a : AStr) (R c : List Setting) (ks : List Int) :
    List.foldlM step (a, R, c, true) ks = .ok (a, R, c, true) := by
  induction ks with
  | nil => rfl
  | cons k ks ih =>
    rw [List.foldlM_cons, h.done]
    exact ih

/-- THE LOOP: over the keys of a sorted table `B` (below a part `A` that has been dealt with), for any loop
    body meeting `OuterSpec`, the table becomes what the model's `removeLoop` builds from the replay of `B`
    — or the `while` loop at `end` runs off its list. -/
theorem fold_outer {M : Option (List Str)} {st en : Nat} {s : Str} {step : St → Int → Except Exc St}
    (h : OuterSpec M st en s step) :
    ∀ (B A : Fmts) (R c : List Setting), SortedKeys B → (∀ x ∈ A, ∀ y ∈ B, x.1 < y.1) →
      (List.foldlM step (⟨s, A ++ B⟩, R, c, false) (Obj.keysAsc B)).map (·.1) =
        if loopOk M st en s.length R (replayFrom c B) then
          .ok ⟨s, A ++ AStr.removeLoop M st en s.length R (replayFrom c B)⟩
        else .error (.py .indexError) := by
  intro B
  induction B with
  | nil => intro A R c _ _; rfl
  | cons kp B ih =>
    obtain ⟨k, p⟩ := kp
    intro A R c hs hAB
    have hA : ∀ x ∈ A, x.1 < k := fun x hx => hAB x hx (k, p) (by simp)
    have hB : ∀ y ∈ B, k < y.1 := fun y hy => (List.pairwise_cons.mp hs).1 y hy
    have hkeys : Obj.keysAsc ((k, p) :: B) = (k : Int) :: Obj.keysAsc B := rfl
    rw [hkeys, List.foldlM_cons, h.round _ R c k p (get?_mid p B hA), modify_mid p B _ hA]
    simp only [replayFrom, loopOk, removeLoop_round]
    cases hok : roundOk st en s.length k p R (stepPoint c p) with
    | false => rfl
    | true =>
      simp only [if_true, Bool.true_and]
      show (List.foldlM step _ _).map _ = _
      cases hd : (roundPt M st en s.length k p R (stepPoint c p)).2.2 with
      | true =>
        rw [fold_done h, replayFrom_untag]
        rfl
      | false =>
        simp only [Bool.false_eq_true, if_false]
        have := ih (A ++ [(k, (roundPt M st en s.length k p R (stepPoint c p)).1)])
          (roundPt M st en s.length k p R (stepPoint c p)).2.1 (stepPoint c p)
          (List.pairwise_cons.mp hs).2
          (by
            intro x hx y hy
            rcases List.mem_append.mp hx with hx | hx
            · exact hAB x hx y (List.mem_cons_of_mem _ hy)
            · simp only [List.mem_singleton] at hx
              subst hx
              exact hB y hy)
        simpa only [List.append_assoc, List.singleton_append] using this

/-! ## Putting the statements around the loop together -/

theorem bind_of_ok {ε α β : Type} {e : Except ε α} {a : α} {k : α → Except ε β} (h : e = .ok a) :
    e.bind k = k a := by subst h; rfl

/-- `if k not in self._fmts: self._fmts[k] = _AnsiSettingPoint()`, for whatever it looks like -/
theorem ensure_stmt {s : Str} {f : Fmts} {j : Nat} {e : Except Exc AStr}
    (h : e = if f.contains j then .ok ⟨s, f⟩ else .ok ⟨s, f.set j {}⟩) : e = .ok ⟨s, f.ensure j⟩ := by
  rw [h]; unfold Fmts.ensure; split <;> rfl

/-- the loop with what comes before (the initial state) and after it (dropping the empty points) -/
theorem core_frame {M : Option (List Str)} {st en : Nat} {s : Str} {step : St → Int → Except Exc St}
    {k : St → Except Exc AStr} {init : St} {keys : List Int} {B : Fmts}
    (hstep : OuterSpec M st en s step) (hB : SortedKeys B)
    (hinit : init = (⟨s, B⟩, [], [], false)) (hkeys : keys = Obj.keysAsc B)
    (hk : ∀ a R c d, k (a, R, c, d) = .ok { a with fmts := a.fmts.filter (fun kp => kp.2.nonEmpty) }) :
    (List.foldlM step init keys).bind k =
      if loopOk M st en s.length [] (replay B) then
        .ok ⟨s, (AStr.removeLoop M st en s.length [] (replay B)).filter (fun kp => kp.2.nonEmpty)⟩
      else .error (.py .indexError) := by
  subst hinit hkeys
  have h := fold_outer hstep B [] [] [] hB (by simp)
  simp only [List.nil_append] at h
  unfold replay
  generalize List.foldlM step _ _ = r at h
  cases hl : loopOk M st en s.length [] (replayFrom [] B) <;> rw [hl] at h <;>
    simp only [Bool.false_eq_true, if_false, if_true] at h ⊢
  · cases r with
    | error err => rw [bind_error]; simpa [Except.map] using h
    | ok σ => simp [Except.map] at h
  · cases r with
    | error err => simp [Except.map] at h
    | ok σ =>
      obtain ⟨a, R, c, d⟩ := σ
      rw [bind_ok, hk]
      simp only [Except.map] at h
      injection h with h
      subst h
      rfl

/-! ## Totality: on a well-formed value the `while` loop at `end` finds an element -/

/-- `removed_settings` still holds an entry after the stop markers at `end` have been dealt with: that
    entry is an active setting that is not stopped here and not restarted here, so it is in the list the
    `while` loop walks, and the loop stops there at the latest -/
theorem endOk_true (M : Option (List Str)) (n en : Nat) {c : List Setting} (hc : (ids c).Nodup) (p : Point)
    (hcur : (ids (stepPoint c p)).Nodup) (hok : stepOk c p.rem = true)
    {R : List Setting} (hR : R.Perm (c.filter (sel M))) :
    endOk n en p R (stepPoint c p) = true := by
  obtain ⟨_, hrr, _, _, _, _⟩ := mid_core M hc p hok hR
  unfold endOk
  rw [hrr]
  simp only
  cases hemp : (R.filter (fun s => !hasId p.rem s.id)).isEmpty with
  | true => simp
  | false =>
    obtain ⟨r, hr⟩ : ∃ r, r ∈ R.filter (fun s => !hasId p.rem s.id) := by
      cases hl : R.filter (fun s => !hasId p.rem s.id) with
      | nil => rw [hl] at hemp; simp at hemp
      | cons r _ => exact ⟨r, by simp⟩
    obtain ⟨hrR, hrrem⟩ := List.mem_filter.mp hr
    have hrc : r ∈ c := (List.mem_filter.mp (hR.mem_iff.mp hrR)).1
    rw [stepPoint_eq hc] at hcur
    obtain ⟨_, _, hd1, _⟩ := nodup_append hcur
    have hrpre : r ∈ c.filter (fun s => !hasId p.rem s.id) := List.mem_filter.mpr ⟨hrc, hrrem⟩
    have hmem : r ∈ (stepPoint c p).filter (fun x => !hasId p.add x.id) := by
      rw [stepPoint_eq hc]
      apply List.mem_filter.mpr
      refine ⟨List.mem_append_left _ hrpre, ?_⟩
      rw [hd1 r hrpre]; rfl
    have hall : ((stepPoint c p).filter (fun x => !hasId p.add x.id)).all
        (fun x => !hasId (R.filter (fun s => !hasId p.rem s.id)) x.id) = false := by
      rw [List.all_eq_false]
      exact ⟨r, hmem, by simp [hasId_of_mem hr]⟩
    rw [hall]
    simp

/-- the loop of the model ends normally on the replay of a table whose replay is well formed
    (same induction as `Remove.removeLoop_spec`) -/
theorem loopOk_spec (M : Option (List Str)) (st en n : Nat) (g : Nat → Point) (hse : st < en)
    (hnd : ∀ k, (ids (bef g k)).Nodup) (hok : ∀ k, stepOk (bef g k) (g k).rem = true) :
    ∀ (f : Fmts) (lo : Nat) (R : List Setting), SortedKeys f → Fmts.LB lo f →
      (∀ k, lo ≤ k → Fmts.toFun f k = g k) →
      (lo ≤ st → f.contains st = true) → (lo ≤ en → f.contains en = true) →
      (lo ≤ st → R = []) → (st < lo → lo ≤ en → R.Perm ((bef g lo).filter (sel M))) →
      loopOk M st en n R (tag (fun k => bef g (k + 1)) f) = true := by
  intro f
  induction f with
  | nil => intros; rfl
  | cons kp rest ih =>
    obtain ⟨k0, p0⟩ := kp
    intro lo R hs hlb hg hcs hce hR0 hRP
    have hk0 : lo ≤ k0 := hlb (k0, p0) (by simp)
    have hp0 : p0 = g k0 := by rw [← hg k0 hk0, toFun_cons]; simp
    have hrest : SortedKeys rest := Fmts.sorted_tail hs
    have hlb' : Fmts.LB (k0 + 1) rest := Fmts.LB_tail_of_sorted hs
    have hg' : ∀ k, k0 + 1 ≤ k → Fmts.toFun rest k = g k := by
      intro k hk
      rw [← hg k (by omega), toFun_cons]
      have h3 : ¬ k0 = k := by omega
      have h4 : ¬ k < k0 := by omega
      simp [h3, h4]
    have hgap : ∀ j, lo ≤ j → j < k0 → g j = {} := by
      intro j h1 h2
      rw [← hg j h1, toFun_cons]
      have h3 : ¬ k0 = j := by omega
      simp [h3, h2]
    have hbef : bef g k0 = bef g lo := bef_skip' g hk0 hgap
    have hst0 : lo ≤ st → k0 ≤ st := fun h => contains_cons_le (hcs h)
    have hen0 : lo ≤ en → k0 ≤ en := fun h => contains_cons_le (hce h)
    have hcs' : k0 + 1 ≤ st → Fmts.contains rest st = true := fun h =>
      (contains_cons_lt (hcs (by omega)) (by omega)).2
    have hce' : k0 + 1 ≤ en → Fmts.contains rest en = true := fun h =>
      (contains_cons_lt (hce (by omega)) (by omega)).2
    rw [tag_cons]
    unfold loopOk roundOk roundPt
    by_cases c1 : k0 < st
    · simp only [c1, not_true_eq_false, false_and, if_false, if_true, Bool.true_and, Bool.false_eq_true]
      exact ih (k0 + 1) R hrest hlb' hg' hcs' hce' (fun _ => hR0 (by omega)) (fun h => by omega)
    · by_cases c2 : k0 > en
      · have c2' : ¬ k0 = en := by omega
        simp only [c1, c2, c2', and_false, if_false, if_true, Bool.true_and]
      · by_cases c3 : k0 = st
        · subst c3
          simp only [c2, Nat.lt_irrefl, ne_eq, not_true_eq_false, false_and, and_false, if_false, if_true,
            Bool.true_and, Bool.false_eq_true]
          have hRnil : R = [] := hR0 (by omega)
          subst hRnil
          have hss := step_start M (hnd k0) (g k0) (by rw [← bef_succ]; exact hnd (k0 + 1)) (hok k0)
          rw [← bef_succ] at hss
          subst hp0
          apply ih (k0 + 1) _ hrest hlb' hg' hcs' hce' (fun h => by omega)
          intro _ _
          rw [hss.2.2]
        · have hstlo : st < lo := by
            by_cases h : lo ≤ st
            · have := hst0 h; omega
            · omega
          have hRk0 : R.Perm ((bef g k0).filter (sel M)) := by
            rw [hbef]; exact hRP hstlo (by omega)
          by_cases c4 : k0 = en
          · subst c4
            subst hp0
            have hE := endOk_true M n k0 (hnd k0) (g k0) (by rw [← bef_succ]; exact hnd (k0 + 1)) (hok k0) hRk0
            rw [← bef_succ] at hE
            simp only [c1, c3, gt_iff_lt, Nat.lt_irrefl, ne_eq, not_false_eq_true, and_self, if_true, if_false,
              hE, Bool.true_and, Bool.false_eq_true]
            exact ih (k0 + 1) _ hrest hlb' hg' hcs' hce' (fun h => by omega) (fun _ h => by omega)
          · simp only [c1, c2, c3, c4, and_false, if_false, Bool.true_and, Bool.false_eq_true]
            subst hp0
            apply ih (k0 + 1) _ hrest hlb' hg' hcs' hce' (fun h => by omega)
            intro _ _
            have := (step_mid M (hnd k0) (g k0) (hok k0) hRk0).2.2
            rwa [← bef_succ] at this

/-- on a well-formed value the loop never runs into the IndexError -/
theorem loopOk_of_WF {x : AStr} (hx : WF x) (M : Option (List Str)) (st en : Nat) (h2 : st < en) :
    loopOk M st en x.len [] (replay ((x.fmts.ensure st).ensure en)) = true := by
  have hr := f0_replay hx st en
  unfold f0 at hr
  rw [hr]
  refine loopOk_spec M st en x.len (gOf x) h2 (wf_nodup hx) (wf_ok hx) (f0 x st en) 0 []
    (f0_sorted hx st en) (fun _ _ => Nat.zero_le _) (fun k _ => f0_toFun hx st en k) ?_ ?_ (fun _ => rfl)
    (fun h => by omega)
  · intro _
    exact contains_ensure_of_contains (sorted_ensure hx.sorted st) en st
      (Remove.contains_ensure_self hx.sorted st)
  · intro _
    exact Remove.contains_ensure_self (sorted_ensure hx.sorted st) en

end L

open L C06d.L Remove

/-- the head of one round: fetch the point, step the iterator, decide the comparisons of the key with
    `start` and `end` (given as facts about integers), clean up the Booleans -/
local macro "round_simp" "[" ts:Lean.Parser.Tactic.simpLemma,* "]" : tactic =>
  `(tactic| simp only [$ts,*, C09c.iter_step_is_code, C06d.L.bind_ok, gt_iff_lt, ge_iff_le, ne_eq,
      not_true_eq_false, not_false_eq_true, decide_true, decide_false, Bool.not_true, Bool.not_false,
      Bool.false_eq_true, Bool.true_and, Bool.and_true, Bool.false_and, Bool.and_false, if_true, if_false])

/-- the method was translated (did not fall outside the translator's fragment) -/
theorem translated : Gen.removeCoreOk = true := by decide

set_option linter.unusedSimpArgs false in
/-- THE TRANSLATED STATEMENTS OF `remove_formatting` AND THE MODEL: equal, but for the IndexError of the
    `while` loop at `end`, which the model side predicts exactly (`loopOk`) -/
theorem removeCore_eq (x : AStr) (hs : SortedKeys x.fmts) (A : Option (List Setting)) (s e : Option Int)
    (hgo : ¬ (sliceIdx x.len s 0 ≥ x.len ∨ sliceIdx x.len e x.len ≤ sliceIdx x.len s 0)) :
    Gen.removeCore x A (sliceIdx x.len s 0 : Nat) (sliceIdx x.len e x.len : Nat) =
      if loopOk (A.map texts) (sliceIdx x.len s 0) (sliceIdx x.len e x.len) x.len []
          (replay ((x.fmts.ensure (sliceIdx x.len s 0)).ensure (sliceIdx x.len e x.len))) then
        .ok (x.removeFormatting (A.map texts) s e)
      else .error (.py .indexError) := by
  unfold AStr.removeFormatting
  simp only [hgo, if_false]
  generalize sliceIdx x.len s 0 = st at *
  generalize sliceIdx x.len e x.len = en at *
  obtain ⟨xs, xf⟩ := x
  simp only [AStr.len] at *
  unfold Gen.removeCore
  have hse : st < en := by omega
  refine (bind_of_ok (a := ⟨xs, xf.ensure st⟩) (ensure_stmt ?_)).trans ?_
  · simp only [has_nat, set_nat, bind_ok, Bool.not_not] <;> cases xf.contains st <;> rfl
  refine (bind_of_ok (a := ⟨xs, (xf.ensure st).ensure en⟩) (ensure_stmt ?_)).trans ?_
  · simp only [has_nat, set_nat, bind_ok, Bool.not_not] <;> cases (xf.ensure st).contains en <;> rfl
  refine core_frame (M := A.map texts) (st := st) (en := en) ?spec
    (sorted_ensure (sorted_ensure hs st) en) rfl rfl ?k
  case k =>
    -- what follows the loop: the empty points are dropped
    intro a R c d
    simp only [C15c.point_bool_is_code]
  case spec =>
    -- one round of the loop over the keys, branch by branch
    refine ⟨?_, ?_, ?_, ?_, ?_, ?_⟩
    · intro a R c k
      first | rfl | simp
    · -- before `start`
      intro F R c k p hg h1
      round_simp [get_of_get? hg, modifyAt_of_get? _ hg, cmp_lt h1, cmp_lt (show k < en by omega)]
    · -- behind `end`
      intro F R c k p hg h1 h2
      round_simp [get_of_get? hg, modifyAt_of_get? _ hg, cmp_lt h2, cmp_lt (show st < k by omega)]
    · -- at `start`
      intro F R c k p hg h1 h2 h3
      subst h3
      round_simp [get_of_get? hg, modifyAt_of_get? _ hg, cmp_self k, cmp_lt hse]
      rw [fold_start (M := A.map texts) ?sspec]
      case sspec =>
        intro acc s
        obtain ⟨sp, rs⟩ := acc
        unfold rasStep
        cases A with
        | none =>
          cases hh : hasId sp.add s.id <;>
            simp [find_nonneg_iff, find_neg_iff, hh, del_found, selected_none, bind_ok]
        | some l =>
          cases hh : hasId sp.add s.id <;> cases ht : hasTxt l s.txt <;>
            simp [find_nonneg_iff, find_neg_iff, hh, ht, del_found, selected_some, Py.optGet, bind_ok]
      first | rfl | simp [bind_ok]
    · -- at `end`
      intro F R c k p hg h1 h2 h3 h4
      subst h4
      round_simp [get_of_get? hg, modifyAt_of_get? _ hg, cmp_self k, cmp_lt hse]
      rw [fold_rems ?rspec]
      case rspec =>
        intro R sp i s hi
        have hlt := lt_of_getElem? hi
        cases hh : hasId R s.id <;>
          simp [getIdx_nat hi, find_nonneg_iff, find_neg_iff, hh, del_found, delIdx_nat hlt, bind_ok]
      simp only [bind_ok, find_lt_zero, find_ge_zero, dropWhileHead_eq, sliceAssign_zero]
      unfold endOk endPt
      generalize AStr.removeRems p.rem R = rr
      have e5 : ((k : Int) = (xs.length : Int)) ↔ k = xs.length := by omega
      obtain ⟨r1, r2⟩ := rr
      by_cases h5 : k = xs.length <;> cases r2 <;>
        cases h7 : (List.filter (fun x => !hasId p.add x.id) (stepPoint c p)).all
          (fun x => !hasId (r1, _).2 x.id) <;>
        simp [e5, h5, h7, bind_ok, bind_error] <;> simp_all
    · -- strictly inside
      intro F R c k p hg h1 h2 h3 h4
      round_simp [get_of_get? hg, modifyAt_of_get? _ hg, cmp_lt (show st < k by omega),
        cmp_lt (show k < en by omega)]
      rw [fold_rems ?rspec]
      case rspec =>
        intro R sp i s hi
        have hlt := lt_of_getElem? hi
        cases hh : hasId R s.id <;>
          simp [getIdx_nat hi, find_nonneg_iff, find_neg_iff, hh, del_found, delIdx_nat hlt, bind_ok]
      simp only [bind_ok]
      rw [fold_mid (M := A.map texts) ?mspec]
      case mspec =>
        intro sp R i s hi
        have hlt := lt_of_getElem? hi
        cases A with
        | none => simp [getIdx_nat hi, delIdx_nat hlt, bind_ok, selected_none]
        | some l =>
          cases ht : hasTxt l s.txt <;>
            simp [getIdx_nat hi, delIdx_nat hlt, bind_ok, selected_some, Py.optGet, ht]
      first | rfl | simp [bind_ok, midPt, midR]

/-- 2. the only way not to return the model's value is the IndexError of the `while` loop at `end`:
    no KeyError, nothing outside the model's representation, no other Python exception -/
theorem removeCore_outcomes (x : AStr) (hs : SortedKeys x.fmts) (A : Option (List Setting)) (s e : Option Int)
    (hgo : ¬ (sliceIdx x.len s 0 ≥ x.len ∨ sliceIdx x.len e x.len ≤ sliceIdx x.len s 0)) :
    Gen.removeCore x A (sliceIdx x.len s 0 : Nat) (sliceIdx x.len e x.len : Nat) =
        .ok (x.removeFormatting (A.map texts) s e) ∨
      Gen.removeCore x A (sliceIdx x.len s 0 : Nat) (sliceIdx x.len e x.len : Nat) =
        .error (.py .indexError) := by
  rw [removeCore_eq x hs A s e hgo]
  split
  · exact Or.inl rfl
  · exact Or.inr rfl

/-- 1. PARTIAL CORRECTNESS: whenever the translated statements of `remove_formatting` return, they return
    the model's value -/
theorem removeCore_sound (x : AStr) (hs : SortedKeys x.fmts) (A : Option (List Setting)) (s e : Option Int)
    (hgo : ¬ (sliceIdx x.len s 0 ≥ x.len ∨ sliceIdx x.len e x.len ≤ sliceIdx x.len s 0)) (y : AStr)
    (h : Gen.removeCore x A (sliceIdx x.len s 0 : Nat) (sliceIdx x.len e x.len : Nat) = .ok y) :
    y = x.removeFormatting (A.map texts) s e := by
  rcases removeCore_outcomes x hs A s e hgo with h' | h'
  · rw [h'] at h
    injection h with h
    exact h.symm
  · rw [h'] at h
    cases h

/-- 3, under an explicit hypothesis on the model side: when the `while` loop finds an element
    (`loopOk`), the statements return the model's value — and only then -/
theorem removeCore_is_code_partial (x : AStr) (hs : SortedKeys x.fmts) (A : Option (List Setting))
    (s e : Option Int)
    (hgo : ¬ (sliceIdx x.len s 0 ≥ x.len ∨ sliceIdx x.len e x.len ≤ sliceIdx x.len s 0)) :
    (Gen.removeCore x A (sliceIdx x.len s 0 : Nat) (sliceIdx x.len e x.len : Nat) =
        .ok (x.removeFormatting (A.map texts) s e)) ↔
      loopOk (A.map texts) (sliceIdx x.len s 0) (sliceIdx x.len e x.len) x.len []
        (replay ((x.fmts.ensure (sliceIdx x.len s 0)).ensure (sliceIdx x.len e x.len))) = true := by
  rw [removeCore_eq x hs A s e hgo]
  split
  · simp [*]
  · rename_i h
    simp [h]

/-- 3. TOTAL CORRECTNESS on well-formed values: the translated statements of `remove_formatting` compute
    the model function; in particular no IndexError, no KeyError, nothing outside the model -/
theorem removeCore_is_code (x : AStr) (hx : WF x) (A : Option (List Setting)) (s e : Option Int)
    (hgo : ¬ (sliceIdx x.len s 0 ≥ x.len ∨ sliceIdx x.len e x.len ≤ sliceIdx x.len s 0)) :
    Gen.removeCore x A (sliceIdx x.len s 0 : Nat) (sliceIdx x.len e x.len : Nat) =
      .ok (x.removeFormatting (A.map texts) s e) := by
  rw [removeCore_eq x hx.sorted A s e hgo, loopOk_of_WF hx _ _ _ (by omega)]
  rfl

/-! ## Non-vacuity and concrete runs -/

/-- "abcdef": `31` (object 0) over [0,6), `1` (object 1) over [2,4) -/
def x0 : AStr :=
  { s := "abcdef".toList,
    fmts := [(0, { add := [⟨0, "31".toList⟩] }), (2, { add := [⟨1, "1".toList⟩] }),
             (4, { rem := [⟨1, "1".toList⟩] }), (6, { rem := [⟨0, "31".toList⟩] })] }

theorem x0_wf : WF x0 where
  sorted := by unfold SortedKeys; decide
  bound := by decide
  noAddEnd := by decide
  ok := by decide
  nodup := by
    intro i
    rcases i with _ | _ | _ | _ | _ | _ | _ | i
    · decide
    · decide
    · decide
    · decide
    · decide
    · decide
    · decide
    · simp [active, activeFrom, x0, stepPoint, eraseId]
  closed := by decide
  coherent := by decide

/-- the hypotheses of the theorems hold for `x0`, start 1, end 5 -/
example : SortedKeys x0.fmts ∧ WF x0 ∧
    ¬ (sliceIdx x0.len (some 1) 0 ≥ x0.len ∨ sliceIdx x0.len (some 5) x0.len ≤ sliceIdx x0.len (some 1) 0) :=
  ⟨x0_wf.sorted, x0_wf, by decide⟩

example : Gen.removeCore x0 none 1 5 = .ok (x0.removeFormatting none (some 1) (some 5)) := by
  decide +kernel
example : Gen.removeCore x0 (some [⟨9, "31".toList⟩]) 1 3 =
    .ok (x0.removeFormatting (some ["31".toList]) (some 1) (some 3)) := by decide +kernel
example : Gen.removeCore x0 (some [⟨9, "31".toList⟩]) 0 6 =
    .ok (x0.removeFormatting (some ["31".toList]) (some 0) (some 6)) := by decide +kernel
example : Gen.removeCore x0 (some [⟨9, "1".toList⟩]) 3 6 =
    .ok (x0.removeFormatting (some ["1".toList]) (some 3) (some 6)) := by decide +kernel

/-- the value itself: `31` removed on [1,3) is stopped at 1 and restarted at 3 *below* `1` -/
example : Gen.removeCore x0 (some [⟨9, "31".toList⟩]) 1 3 = .ok
    { s := "abcdef".toList,
      fmts := [(0, { add := [⟨0, "31".toList⟩] }), (1, { rem := [⟨0, "31".toList⟩] }),
               (2, { add := [⟨1, "1".toList⟩] }),
               (3, { add := [⟨0, "31".toList⟩, ⟨1, "1".toList⟩], rem := [⟨1, "1".toList⟩] }),
               (4, { rem := [⟨1, "1".toList⟩] }), (6, { rem := [⟨0, "31".toList⟩] })] } := by
  decide +kernel

/-- An ill-formed (sorted) table on which the code raises IndexError while the model's `dropWhile` is
    total: the same object started twice (0 and 3) — at `end` = 3 the removed object is among the start
    markers of the point, so `carried_settings` is empty and `while carried_settings[0] …` runs off it. -/
def xBad : AStr :=
  { s := "abcdef".toList,
    fmts := [(0, { add := [⟨0, "31".toList⟩] }), (3, { add := [⟨0, "31".toList⟩] })] }

example : SortedKeys xBad.fmts := by unfold SortedKeys; decide
example : Gen.removeCore xBad none 1 3 = .error (.py .indexError) := by decide +kernel
example : loopOk none 1 3 xBad.len [] (replay ((xBad.fmts.ensure 1).ensure 3)) = false := by decide +kernel

end C07c

#print axioms C07c.removeCore_eq
#print axioms C07c.removeCore_sound
#print axioms C07c.removeCore_outcomes
#print axioms C07c.removeCore_is_code_partial
#print axioms C07c.removeCore_is_code
