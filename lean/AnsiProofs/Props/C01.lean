import AnsiProofs.Lemmas.Render
/-
  Property C01 — `str()`, `format()` and `to_str()` against a conforming SGR terminal.

  "For every AnsiString/AnsiStr value reachable through the public API whose settings are
  well-formed SGR parameter groups, the text returned by str(), format() and to_str() under every
  combination of optimize, reset_start and reset_end, when interpreted by a conforming SGR terminal,
  shows exactly the characters of base_str in order, each with the effective style obtained from the
  settings the object reports for that character (a later setting overriding earlier ones of the same
  effect). optimize=True and optimize=False are display-equivalent; with reset_start the output
  begins with a reset and the result does not depend on the terminal's prior state; with reset_end
  the terminal is back in its default state after the output whenever any style was emitted."

  Notation: `x : AStr` the value; `Render.render x o rs re` the model of
  `to_str(None, optimize=o, reset_start=rs, reset_end=re)` (`AnsiModel/Render.lean`);
  `Term.run t0 out` the independent terminal of `AnsiSpec/Terminal.lean` started in state `t0`: the
  list of displayed characters, each with the state it is displayed under, and the final state;
  `den x = x.s.zipIdx.map (fun ci => (ci.1, eff (act x ci.2)))` (`AnsiSpec/Styled.lean`): the
  characters of the base text, each under the effective style `eff` of the settings `act x i` the
  value reports for it; `RenderL.lastStyle x` = the settings of the last character (`[]` for the
  empty text).

  All theorems hold for every `x` (no size bound), every flag combination and every prior state.
  Only the `sorted` field of `WF` is used.  Facts about the generated constants are `decide`d.
-/
open Term Eff RenderL

namespace C01

/-! ### the rendering on a terminal: what is displayed, and the state the terminal is left in -/

/-- the whole result of running the rendering on a terminal: the display is the denotation of the
    value; the final state is the default one with `reset_end`, the style of the last character
    without -/
theorem render_run (x : AStr) (o rs re : Bool) (t0 : Term.TState)
    (hwf : WF x) (hg : GroupSettings x) (hne : NoEsc x.s) (h0 : rs = true ∨ t0 = Term.default) :
    Term.run t0 (Render.render x o rs re) =
      (den x, if re then Term.default else eff (lastStyle x)) :=
  RenderL.render_run hwf.sorted hg hne o rs re t0 h0

/-- **1.** the terminal displays exactly the characters of the base text, in order, each under the
    effective style of the settings the value reports for it -/
theorem render_display (x : AStr) (o rs re : Bool) (t0 : Term.TState)
    (hwf : WF x) (hg : GroupSettings x) (hne : NoEsc x.s) (h0 : rs = true ∨ t0 = Term.default) :
    (Term.run t0 (Render.render x o rs re)).1 =
      x.s.zipIdx.map (fun ci => (ci.1, eff (act x ci.2))) := by
  rw [render_run x o rs re t0 hwf hg hne h0]; rfl

/-- the characters alone: the SGR sequences removed, the base text remains -/
theorem render_chars (x : AStr) (o rs re : Bool) (t0 : Term.TState)
    (hwf : WF x) (hg : GroupSettings x) (hne : NoEsc x.s) (h0 : rs = true ∨ t0 = Term.default) :
    (Term.run t0 (Render.render x o rs re)).1.map (·.1) = x.s := by
  rw [render_display x o rs re t0 hwf hg hne h0, List.map_map]
  have : ((fun (ct : Char × Term.TState) => ct.1) ∘ fun (ci : Char × Nat) => (ci.1, eff (act x ci.2))) =
      fun ci => ci.1 := rfl
  rw [this]
  exact List.zipIdx_map_fst 0 x.s

/-- **2.** `optimize=True` and `optimize=False` are display-equivalent (same display, same final state) -/
theorem optimize_equiv (x : AStr) (rs re : Bool) (t0 : Term.TState)
    (hwf : WF x) (hg : GroupSettings x) (hne : NoEsc x.s) (h0 : rs = true ∨ t0 = Term.default) :
    Term.run t0 (Render.render x true rs re) = Term.run t0 (Render.render x false rs re) := by
  rw [render_run x true rs re t0 hwf hg hne h0, render_run x false rs re t0 hwf hg hne h0]

/-- **3a.** with `reset_start` the output begins with an SGR sequence whose first parameter is 0
    (written `0` or left empty), i.e. with a reset.  `GroupSettings` is needed: see the counterexample
    `reset_start_begins_needs_valid` below. -/
theorem reset_start_begins (x : AStr) (o rs re : Bool) (hrs : rs = true) (hg : GroupSettings x) :
    ∃ ps rest, Render.render x o rs re = '\x1b' :: '[' :: ps ++ 'm' :: rest ∧
      (∀ c ∈ ps, Term.isFinal c = false) ∧ (Term.params ps).head? = some (some 0) := by
  subst hrs; exact render_begins hg o re

/-- **3b.** with `reset_start` the result does not depend on the terminal's prior state -/
theorem reset_start_independent (x : AStr) (o rs re : Bool) (t0 t0' : Term.TState) (hrs : rs = true)
    (hwf : WF x) (hg : GroupSettings x) (hne : NoEsc x.s) :
    Term.run t0 (Render.render x o rs re) = Term.run t0' (Render.render x o rs re) := by
  rw [render_run x o rs re t0 hwf hg hne (.inl hrs), render_run x o rs re t0' hwf hg hne (.inl hrs)]

/-- **4.** with `reset_end` the terminal is back in its default state after the output (whether or
    not a style was emitted) -/
theorem reset_end_default (x : AStr) (o rs re : Bool) (t0 : Term.TState)
    (hwf : WF x) (hg : GroupSettings x) (hne : NoEsc x.s) (h0 : rs = true ∨ t0 = Term.default)
    (hre : re = true) : (Term.run t0 (Render.render x o rs re)).2 = Term.default := by
  rw [render_run x o rs re t0 hwf hg hne h0, hre]; rfl

/-- without `reset_end` the terminal is left in the style of the last character -/
theorem no_reset_end_state (x : AStr) (o rs : Bool) (t0 : Term.TState)
    (hwf : WF x) (hg : GroupSettings x) (hne : NoEsc x.s) (h0 : rs = true ∨ t0 = Term.default) :
    (Term.run t0 (Render.render x o rs false)).2 = eff (lastStyle x) := by
  rw [render_run x o rs false t0 hwf hg hne h0]; rfl

/-! ### 5. `str()`, `format()`, `to_str()` are this function -/

theorem str_eq (x : AStr) : x.str = (if x.fmts.isEmpty then x.s else Render.render x true false true) := rfl

/-- with an empty table the rendering is the text, preceded by the reset sequence when `reset_start` -/
theorem render_empty (x : AStr) (h : x.fmts = []) (o rs re : Bool) :
    Render.render x o rs re = (if rs then Gen.escapeClear else []) ++ x.s :=
  RenderL.render_empty h o rs re

/-- so `str(x)` is the rendering with the default flags in every case -/
theorem str_eq_render (x : AStr) : x.str = Render.render x true false true := by
  rw [str_eq]
  cases h : x.fmts with
  | nil => rw [RenderL.render_empty h]; rfl
  | cons a l => rfl

/-- `to_str()` / `format(x)` (no format spec) -/
theorem toStr_none (x : AStr) (o rs re : Bool) (nid : Nat) :
    x.toStr none o rs re nid =
      .ok (if x.fmts.isEmpty ∧ rs = false then x.s else Render.render x o rs re) := by
  unfold AStr.toStr
  cases rs <;> cases h : x.fmts.isEmpty <;> simp

/-- `format(x, '')` (empty format spec) -/
theorem toStr_some_nil (x : AStr) (o rs re : Bool) (nid : Nat) :
    x.toStr (some []) o rs re nid =
      .ok (if x.fmts.isEmpty ∧ rs = false then x.s else Render.render x o rs re) := by
  unfold AStr.toStr
  cases rs <;> cases h : x.fmts.isEmpty <;> simp

/-- the shortcut for an unformatted value returns what the loop would have returned -/
theorem toStr_none_eq_render (x : AStr) (o rs re : Bool) (nid : Nat) :
    x.toStr none o rs re nid = .ok (Render.render x o rs re) := by
  rw [toStr_none]
  by_cases h : x.fmts.isEmpty = true ∧ rs = false
  · rw [if_pos h, RenderL.render_empty (List.isEmpty_iff.1 h.1), h.2]; rfl
  · rw [if_neg h]

theorem toStr_some_nil_eq_render (x : AStr) (o rs re : Bool) (nid : Nat) :
    x.toStr (some []) o rs re nid = .ok (Render.render x o rs re) := by
  rw [toStr_some_nil, ← toStr_none x o rs re nid, toStr_none_eq_render]

/-- `str(x)` on a terminal in its default state -/
theorem str_display (x : AStr) (hwf : WF x) (hg : GroupSettings x) (hne : NoEsc x.s) :
    Term.run Term.default x.str = (den x, Term.default) := by
  rw [str_eq_render, render_run x true false true Term.default hwf hg hne (.inr rfl)]; rfl

/-! ### non-vacuity: `"abcd"`, red on `[0,3)`, bold on `[1,4)`, `"39"` (default colour) on `[2,3)` -/

def sRed : Setting := ⟨1, "31".toList⟩
def sBold : Setting := ⟨2, "1".toList⟩
def sDef : Setting := ⟨3, "39".toList⟩

def ex : AStr :=
  { s := "abcd".toList,
    fmts := [(0, { add := [sRed] }), (1, { add := [sBold] }), (2, { add := [sDef] }),
             (3, { rem := [sRed, sDef] }), (4, { rem := [sBold] })] }

theorem ex_wf : WF ex where
  sorted := by unfold SortedKeys; decide
  bound := by decide
  noAddEnd := by decide
  ok := by decide
  nodup := by
    intro i
    rcases i with _ | _ | _ | _ | _ | i
    · decide
    · decide
    · decide
    · decide
    · decide
    · simp [active, activeFrom, ex, stepPoint, eraseId, sRed, sBold, sDef]
  closed := by decide
  coherent := by decide

theorem ex_group : GroupSettings ex := by unfold GroupSettings; decide
theorem ex_noEsc : NoEsc ex.s := by unfold NoEsc; decide

/-- the hypotheses of all theorems above are satisfiable by a value with overlapping settings, one
    of which is a *clear* code -/
example : WF ex ∧ GroupSettings ex ∧ NoEsc ex.s ∧ ex.isFormattingParsable = true :=
  ⟨ex_wf, ex_group, ex_noEsc, by decide⟩

-- the renderings (`ESC` written `\x1b`)
example : Render.render ex false false true =
    "\x1b[31ma\x1b[31;1mb\x1b[31;1;39mc\x1b[0;1md\x1b[m".toList := by decide
example : Render.render ex true false true = "\x1b[31ma\x1b[1mb\x1b[39mcd\x1b[m".toList := by decide
example : Render.render ex true true false = "\x1b[0;31ma\x1b[1mb\x1b[39mcd".toList := by decide
example : Render.render ex false true true =
    "\x1b[0;31ma\x1b[31;1mb\x1b[31;1;39mc\x1b[0;1md\x1b[m".toList := by decide
example : ex.str = "\x1b[31ma\x1b[1mb\x1b[39mcd\x1b[m".toList := by decide

-- what the terminal shows, evaluated (optimised and not, default prior state)
example : (Term.run Term.default (Render.render ex true false true)).1.map (fun ct => (ct.1, ct.2.toList)) =
    [('a', [(.fg, [31])]), ('b', [(.boldness, [1]), (.fg, [31])]), ('c', [(.boldness, [1])]),
     ('d', [(.boldness, [1])])] := by decide +kernel
example : (Term.run Term.default (Render.render ex false false true)).1.map (fun ct => (ct.1, ct.2.toList)) =
    [('a', [(.fg, [31])]), ('b', [(.boldness, [1]), (.fg, [31])]), ('c', [(.boldness, [1])]),
     ('d', [(.boldness, [1])])] := by decide +kernel
-- a prior state that is not the default one (blinking, green background), with `reset_start`
example : (Term.run ((Term.default.put .blinking [5]).put .bg [42])
      (Render.render ex true true false)).1.map (fun ct => (ct.1, ct.2.toList)) =
    [('a', [(.fg, [31])]), ('b', [(.boldness, [1]), (.fg, [31])]), ('c', [(.boldness, [1])]),
     ('d', [(.boldness, [1])])] := by decide +kernel
-- without `reset_start` the prior state shows through: the hypothesis `rs = true ∨ t0 = default` is needed
example : (Term.run ((Term.default.put .blinking [5]).put .bg [42])
      (Render.render ex true false true)).1.map (fun ct => (ct.1, ct.2.toList)) ≠
    [('a', [(.fg, [31])]), ('b', [(.boldness, [1]), (.fg, [31])]), ('c', [(.boldness, [1])]),
     ('d', [(.boldness, [1])])] := by decide +kernel
-- final states: default with `reset_end`, the last character's style without
example : (Term.run Term.default (Render.render ex true false true)).2.toList = [] := by decide +kernel
example : (Term.run Term.default (Render.render ex true false false)).2.toList = [(.boldness, [1])] := by
  decide +kernel
example : lastStyle ex = [sBold] := by decide

-- the instances of the theorems on this value
example : (Term.run Term.default (Render.render ex true false true)).1 = den ex :=
  render_display ex true false true _ ex_wf ex_group ex_noEsc (.inr rfl)
example : ∃ ps rest, Render.render ex true true true = '\x1b' :: '[' :: ps ++ 'm' :: rest ∧
    (∀ c ∈ ps, Term.isFinal c = false) ∧ (Term.params ps).head? = some (some 0) :=
  reset_start_begins ex true true true rfl ex_group

/-! ### `reset_start_begins` needs settings without final bytes

  The statement "with `reset_start` the output begins with an SGR sequence whose first parameter is 0"
  is false for a well-formed value one of whose settings contains a final byte (here `"A"`):
  the output is `ESC [ 0 ; A m a ESC [ m`, which a terminal reads as the control sequence `ESC [ 0 ; A`
  (cursor up) followed by the text `ma`. -/

def bad : AStr :=
  { s := "a".toList, fmts := [(0, { add := [⟨1, "A".toList⟩] }), (1, { rem := [⟨1, "A".toList⟩] })] }

theorem bad_wf : WF bad where
  sorted := by unfold SortedKeys; decide
  bound := by decide
  noAddEnd := by decide
  ok := by decide
  nodup := by
    intro i
    rcases i with _ | _ | i
    · decide
    · decide
    · simp [active, activeFrom, bad, stepPoint, eraseId]
  closed := by decide
  coherent := by decide

example : Render.render bad false true true = "\x1b[0;Ama\x1b[m".toList := by decide

theorem reset_start_begins_needs_valid :
    WF bad ∧ ¬ ∃ ps rest, Render.render bad false true true = '\x1b' :: '[' :: ps ++ 'm' :: rest ∧
      (∀ c ∈ ps, Term.isFinal c = false) ∧ (Term.params ps).head? = some (some 0) := by
  refine ⟨bad_wf, fun h => ?_⟩
  have : beginsB (Render.render bad false true true) = true := Begins.check h
  revert this
  decide

end C01

#print axioms C01.render_run
#print axioms C01.render_display
#print axioms C01.render_chars
#print axioms C01.optimize_equiv
#print axioms C01.reset_start_begins
#print axioms C01.reset_start_independent
#print axioms C01.reset_end_default
#print axioms C01.no_reset_end_state
#print axioms C01.str_eq
#print axioms C01.render_empty
#print axioms C01.str_eq_render
#print axioms C01.toStr_none
#print axioms C01.toStr_some_nil
#print axioms C01.toStr_none_eq_render
#print axioms C01.toStr_some_nil_eq_render
#print axioms C01.str_display
#print axioms C01.reset_start_begins_needs_valid
