import AnsiModel.Generated.Methods.IaddCore
import AnsiProofs.Props.C07c
import AnsiProofs.Lemmas.Concat

/-
  Property C05, part d — the *generated* (statement-by-statement translated) body of
  `AnsiString.__iadd__` (`Gen.iaddCore` of `AnsiModel/Generated/Methods.lean`: everything after the right
  operand has been normalised to an AnsiString) against the hand-written model `AStr.iadd`
  (`iaddStep`, `retarget`, `findRefs`, `sameRefs` of `AnsiModel/Concat.lean`).

  Result (`iaddCore_eq`): when the table of the right operand is sorted,

      Gen.iaddCore a b.s b.fmts = if coreOk a b then .ok (a.iadd b) else .error (.py .indexError)

  where `L.coreOk` is a Boolean function of the *model*: "in every retarget loop
  (`for find_idx, add_idx in reversed(finds)`) the indices `replace_settings[find_idx]`,
  `….rem[add_idx] = …`, `del find_settings[find_idx]`, `del replace_settings[find_idx]` stay inside their
  lists".  The model's `retarget` is total (`match acc.2.2[fa.1]? with | none => acc`, `List.set`,
  `List.eraseIdx`); the code raises IndexError.  Hence
    1. `iaddCore_sound`          — whenever the code returns, it returns the model's value;
    2. `iaddCore_outcomes`       — it returns the model's value or raises IndexError: never KeyError
                                    (`Exc.key`), never anything outside the model (`Exc.outside`);
    3. `iaddCore_is_code_partial` — the exact criterion (`↔ coreOk`);
       `iaddCore_is_code_nodup`  — it returns the model's value when no stop list of the incoming table
                                    holds an object twice (`L.rtOk_of_nodup`: `find_settings` and
                                    `replace_settings` are equally long throughout, every `find_idx` occurs
                                    once in `finds`, and they are walked from the back);
       `iaddCore_is_code`        — in particular for `WF b` (`ConcatL.wf_rem_nodup_mem`);
    and `bBad` below is a sorted, ill-formed incoming table (one object twice in a stop list) on which the
    code does raise; `bDup` one on which it does not (the criterion is exact, "no object twice" only sufficient).

  Findings:
  * nothing is asked of `self`: not `WF a`, not even `SortedKeys a.fmts` (`get?`, `set`, `modify`, `erase`
    walk the association list the same way up to the key, so the translated statements and the model agree
    on every table; the hypothesis `hsa` of `iaddCore_sound`/`iaddCore_outcomes` is not used);
  * `self.ansi_settings_at(shift - 1)` is evaluated by the code on the table *as it is in the round*, by the
    model on the table of `a`.  They agree because the value is only looked at when `key == shift`, i.e. at
    the incoming key 0, which in a sorted incoming table can only be the first round — where the table is
    still the one of `a` (`L.core_frame`; away from the seam `L.iaddStep_irrel`).  This is where
    `SortedKeys b.fmts` is used, and the only place.

  Layout:
  * `namespace C05d.L` — nothing here mentions `Gen.iaddCore`.  The table as a dictionary without order
    (`get?_set_self`, `set_set`, `modify_eq_set`, `erase_set`), the primitives of `AnsiModel/Obj.lean` in
    the forms the statements use (`modifyAt_set`, `get_set_self`, `modifyAt_set_self`, `del_set_self`,
    `listSlice_take`, `listSlice_drop`, `setIdx_nat`, …), `later_any` (the `any` over the incoming items is
    `hasId laterAdds`), and one fold lemma per loop, each for an *arbitrary* loop body meeting a spec predicate:
      `InnerSpec`/`fold_inner`  (the retarget loop = `rtStep` folded, or IndexError: `rtOk`),
      `OuterSpec`/`OuterSpec.round`/`fold_outer` (the loop over the incoming table = `iaddStep` folded,
                                 or IndexError: `roundOk`, `iaddOk`),
    then `core_frame` (initial state, the seam round, `return self`) and the totality part
    (`rtOk_of_nodup`, `iaddStep_len_eq`, `iaddOk_of_nodup`, `coreOk_of_nodup`).
  * `namespace C05d` — `iaddCore_eq` unfolds the generated definition, applies `core_frame` and discharges
    the four clauses of `OuterSpec` for the generated lambda by `intro`/`simp only`/`split`; the other
    theorems are corollaries.  The script of `iaddCore_eq` was run unchanged against a rewritten variant of
    the generated function (`shift == key`, `len(settings_add) > 0`, `not not (key in self._fmts)`,
    `not (self._fmts[key] or settings_rem)`, `not find(…) < 0 and not later_key == 0` in the `any`, no
    `if finds:` guard around the retarget loop) and passed.
-/

namespace C05d
namespace L
open C06d.L C07c.L ConcatL

/-! ## The table as a dictionary, without any assumption on the order of the keys

`get?`, `set`, `modify` and `erase` walk the association list the same way up to the key, so the facts
used here hold for every table. -/

theorem get?_set_self (f : Fmts) (k : Nat) (p : Point) : (f.set k p).get? k = some p := by
  induction f with
  | nil => simp [Fmts.set, Fmts.get?]
  | cons kp rest ih =>
    obtain ⟨k', p'⟩ := kp
    unfold Fmts.set
    by_cases h1 : k' = k
    · simp [h1, Fmts.get?]
    · by_cases h2 : k < k'
      · simp [h1, h2, Fmts.get?]
      · simpa [h1, h2, Fmts.get?] using ih

theorem set_set (f : Fmts) (k : Nat) (p q : Point) : (f.set k p).set k q = f.set k q := by
  induction f with
  | nil => simp [Fmts.set]
  | cons kp rest ih =>
    obtain ⟨k', p'⟩ := kp
    unfold Fmts.set
    by_cases h1 : k' = k
    · simp [h1, Fmts.set]
    · by_cases h2 : k < k'
      · simp [h1, h2, Fmts.set]
      · simp only [h1, h2, if_false]
        rw [Fmts.set]
        simp only [h1, h2, if_false, ih]

theorem modify_eq_set {f : Fmts} {k : Nat} {p : Point} (g : Point → Point) (h : f.get? k = some p) :
    f.modify k g = f.set k (g p) := by
  induction f with
  | nil => simp [Fmts.get?] at h
  | cons kp rest ih =>
    obtain ⟨k', p'⟩ := kp
    rw [Fmts.get?_cons] at h
    unfold Fmts.modify Fmts.set
    by_cases h1 : k' = k
    · simp only [h1, if_true] at h ⊢
      injection h with h
      rw [h]
    · by_cases h2 : k < k'
      · simp [h1, h2] at h
      · simp only [h1, h2, if_false] at h ⊢
        rw [ih h]

theorem erase_set {f : Fmts} {k : Nat} {p : Point} (q : Point) (h : f.get? k = some p) :
    (f.set k q).erase k = f.erase k := by
  induction f with
  | nil => simp [Fmts.get?] at h
  | cons kp rest ih =>
    obtain ⟨k', p'⟩ := kp
    rw [Fmts.get?_cons] at h
    unfold Fmts.set
    by_cases h1 : k' = k
    · simp [h1, Fmts.erase]
    · by_cases h2 : k < k'
      · simp [h1, h2] at h
      · simp only [h1, h2, if_false] at h ⊢
        unfold Fmts.erase
        simp only [h1, if_false]
        rw [ih h]

/-! ## Primitives of `AnsiModel/Obj.lean` in the forms the statements of `__iadd__` use -/

theorem has_of_get?_none {f : Fmts} {k : Nat} (h : f.get? k = none) : Obj.has f (k : Int) = false := by
  rw [has_nat]; unfold Fmts.contains; rw [h]; rfl

theorem has_of_get?_some {f : Fmts} {k : Nat} {p : Point} (h : f.get? k = some p) :
    Obj.has f (k : Int) = true := by
  rw [has_nat]; unfold Fmts.contains; rw [h]; rfl

/-- `d[k].x = …` at a key that is present -/
theorem modifyAt_set {f : Fmts} {k : Nat} {p : Point} (g : Point → Point) (h : f.get? k = some p) :
    Obj.modifyAt f (k : Int) g = .ok (f.set k (g p)) := by
  rw [modifyAt_of_get? g h, modify_eq_set g h]

/-- `d[k]` read after `d[k] = p` -/
theorem get_set_self (f : Fmts) (k : Nat) (p : Point) : Obj.get (f.set k p) (k : Int) = .ok p :=
  get_of_get? (get?_set_self f k p)

/-- `d[k].x = …` after `d[k] = p` -/
theorem modifyAt_set_self (f : Fmts) (k : Nat) (p : Point) (g : Point → Point) :
    Obj.modifyAt (f.set k p) (k : Int) g = .ok (f.set k (g p)) := by
  rw [modifyAt_set g (get?_set_self f k p), set_set]

/-- `d[k] = q` after `d[k] = p` -/
theorem set_set_self (f : Fmts) (k : Nat) (p q : Point) :
    Obj.set (f.set k p) (k : Int) q = .ok (f.set k q) := by
  rw [set_nat, set_set]

theorem del_of_get? {f : Fmts} {k : Nat} {p : Point} (h : f.get? k = some p) :
    Obj.del f (k : Int) = .ok (f.erase k) := by
  unfold Obj.del
  have : ¬ ((k : Int) < 0) := by omega
  rw [if_neg this, Int.toNat_natCast, h]

/-- `del d[k]` after `d[k] = q` at a key that was present -/
theorem del_set_self {f : Fmts} {k : Nat} {p : Point} (q : Point) (h : f.get? k = some p) :
    Obj.del (f.set k q) (k : Int) = .ok (f.erase k) := by
  rw [del_of_get? (get?_set_self f k q), erase_set q h]

/-- `l[:n]` for `n = len(…)` -/
theorem listSlice_take {α : Type} (l : List α) (n : Nat) :
    Py.listSlice l (none : Option Int) (some (n : Int)) = l.take n := by
  unfold Py.listSlice Py.listIdx
  have : ¬ ((n : Int) < 0) := by omega
  simp only [this, if_false, Int.toNat_natCast, List.drop_zero]
  rw [List.take_eq_take_iff]; omega

/-- `l[n:]` for `n = len(…)` -/
theorem listSlice_drop {α : Type} (l : List α) (n : Nat) :
    Py.listSlice l (some (n : Int)) (none : Option Int) = l.drop n := by
  unfold Py.listSlice Py.listIdx
  have : ¬ ((n : Int) < 0) := by omega
  simp only [this, if_false, Int.toNat_natCast, List.take_length]
  by_cases h : n ≤ l.length
  · rw [Nat.min_eq_left h]
  · rw [Nat.min_eq_right (by omega), List.drop_length, List.drop_of_length_le (by omega)]

/-- `l[i] = v` inside the list -/
theorem setIdx_nat {α : Type} {l : List α} {i : Nat} (v : α) (h : i < l.length) :
    Py.setIdx l (i : Int) v = .ok (l.set i v) := by
  unfold Py.setIdx
  have h1 : ¬ ((i : Int) < 0) := by omega
  have h2 : ¬ ((i : Int) ≥ (l.length : Int)) := by omega
  simp only [h1, if_false, h2, false_or, Int.toNat_natCast]

/-- `l[i] = v` behind the list -/
theorem setIdx_out {α : Type} {l : List α} {i : Nat} (v : α) (h : ¬ i < l.length) :
    Py.setIdx l (i : Int) v = .error (.py .indexError) := by
  unfold Py.setIdx
  have h1 : ¬ ((i : Int) < 0) := by omega
  have h2 : (i : Int) ≥ (l.length : Int) := by omega
  simp only [h1, if_false, h2, false_or, if_true]

theorem getIdx_out {α : Type} {l : List α} {i : Nat} (h : l[i]? = none) :
    Py.getIdx l (i : Int) = .error (.py .indexError) := by
  unfold Py.getIdx
  have h1 : ¬ ((i : Int) < 0) := by omega
  simp only [h1, if_false, Int.toNat_natCast, h]

theorem delIdx_out {α : Type} {l : List α} {i : Nat} (h : ¬ i < l.length) :
    Py.delIdx l (i : Int) = .error (.py .indexError) := by
  unfold Py.delIdx
  have h1 : ¬ ((0 : Int) ≤ (i : Int) ∧ (i : Int) < (l.length : Int)) := by omega
  have h2 : ¬ ((i : Int) < 0 ∧ -(l.length : Int) ≤ (i : Int)) := by omega
  rw [if_neg h1, if_neg h2]

/-- the key of a round, `key + shift`, as a natural number; `key == shift` -/
theorem key_cast (k n : Nat) : (k : Int) + (n : Int) = ((k + n : Nat) : Int) := by omega

theorem key_eq_shift (k n : Nat) : (((k + n : Nat) : Int) = (n : Int)) ↔ k = 0 := by omega

theorem key_eq_shift' (k n : Nat) : ((n : Int) = ((k + n : Nat) : Int)) ↔ k = 0 := by omega

/-! ## The retarget loop `for find_idx, add_idx in reversed(finds)` -/

/-- the state of both translated loops: the object, `find_settings`, `replace_settings` -/
abbrev St := AStr × List Setting × List Setting

/-- does one round of the retarget loop end normally: `replace_settings[find_idx]`, `….rem[add_idx] = …`,
    `del find_settings[find_idx]`, `del replace_settings[find_idx]` all inside their lists -/
def rtStepOk (acc : List Setting × List Setting × List Setting) (fa : Nat × Nat) : Bool :=
  decide (fa.1 < acc.2.2.length ∧ fa.1 < acc.2.1.length ∧ fa.2 < acc.1.length)

/-- does the retarget loop end normally (`false` = IndexError) -/
def rtOk : List Setting × List Setting × List Setting → List (Nat × Nat) → Bool
  | _, [] => true
  | acc, fa :: rest => rtStepOk acc fa && rtOk (rtStep acc fa) rest

theorem rtOk_cons (acc : List Setting × List Setting × List Setting) (fa : Nat × Nat) (rest : List (Nat × Nat)) :
    rtOk acc (fa :: rest) = (rtStepOk acc fa && rtOk (rtStep acc fa) rest) := rfl

/-- one round of the retarget loop at the key `K`, whatever it looks like -/
def InnerSpec (s : Str) (K : Nat) (istep : St → Int × Int → Except Exc St) : Prop :=
  ∀ (F : Fmts) (p : Point) (find repl : List Setting) (i j : Nat), F.get? K = some p →
    istep (⟨s, F⟩, find, repl) ((i : Int), (j : Int)) =
      if rtStepOk (p.rem, find, repl) (i, j) then
        .ok (⟨s, F.set K { p with rem := (rtStep (p.rem, find, repl) (i, j)).1 }⟩,
             (rtStep (p.rem, find, repl) (i, j)).2.1, (rtStep (p.rem, find, repl) (i, j)).2.2)
      else .error (.py .indexError)

/-- THE RETARGET LOOP, for any loop body meeting `InnerSpec`: the model's `rtStep` folded over the pairs,
    or IndexError when an index runs out -/
theorem fold_inner {s : Str} {K : Nat} {istep : St → Int × Int → Except Exc St}
    (h : InnerSpec s K istep) (add : List Setting) :
    ∀ (finds : List (Nat × Nat)) (F : Fmts) (rem find repl : List Setting),
      List.foldlM istep (⟨s, F.set K ⟨add, rem⟩⟩, find, repl)
          (finds.map (fun ab => ((ab.1 : Int), (ab.2 : Int)))) =
        if rtOk (rem, find, repl) finds then
          .ok (⟨s, F.set K ⟨add, (finds.foldl rtStep (rem, find, repl)).1⟩⟩,
               (finds.foldl rtStep (rem, find, repl)).2.1, (finds.foldl rtStep (rem, find, repl)).2.2)
        else .error (.py .indexError) := by
  intro finds
  induction finds with
  | nil => intro F rem find repl; rfl
  | cons fa finds ih =>
    intro F rem find repl
    obtain ⟨i, j⟩ := fa
    rw [List.map_cons, List.foldlM_cons, h _ _ _ _ _ _ (get?_set_self F K ⟨add, rem⟩)]
    rw [rtOk_cons, List.foldl_cons]
    cases hok : rtStepOk (rem, find, repl) (i, j) with
    | false => rfl
    | true =>
      simp only [if_true, Bool.true_and, set_set]
      show List.foldlM istep _ _ = _
      rw [ih F]

/-! ## One round of the loop over the incoming table -/

/-- `self.ansi_settings_at(shift - 1)` on the table as it is in the round -/
def actPrevOf (s : Str) (n : Nat) (F : Fmts) : List Setting :=
  AStr.ansiSettingsAt ⟨s, F⟩ ((n : Int) - 1)

/-- the model's round at a key that is present, for any key -/
theorem iaddStep_some' (n : Nat) (A later : List Setting) (st : IaddSt) (k : Nat) (p mine : Point)
    (hget : st.f.get? (k + n) = some mine) :
    iaddStep n A later st (k, p) =
      if k = 0 ∧ mergeCond A later mine p.add = true then
        (if (!({ mine with rem := mine.rem.drop p.add.length } : Point).nonEmpty) = true ∧ p.rem.isEmpty = true then
          { f := st.f.erase (k + n), find := p.add, repl := mine.rem.take p.add.length }
        else
          { f := st.f.set (k + n) { add := mine.add, rem := mine.rem.drop p.add.length ++ p.rem },
            find := p.add, repl := mine.rem.take p.add.length })
      else { st with f := st.f.set (k + n) { add := mine.add ++ p.add, rem := mine.rem ++ p.rem } } := by
  simp only [iaddStep, hget]
  have e : k + n = n ↔ k = 0 := by omega
  simp only [mergeCond, Bool.and_eq_true, e, and_assoc]

/-- away from the seam a round does not look at `ansi_settings_at(shift - 1)` -/
theorem iaddStep_irrel (n : Nat) (A A' later : List Setting) (st : IaddSt) (kp : Nat × Point)
    (h : kp.1 ≠ 0) : iaddStep n A later st kp = iaddStep n A' later st kp := by
  have e : ¬ (kp.1 + n = n) := by omega
  simp only [iaddStep, e, false_and, if_false]

/-- does one round end normally (`false` = IndexError in the retarget loop) -/
def roundOk (n : Nat) (st : IaddSt) (kp : Nat × Point) : Bool :=
  match st.f.get? (kp.1 + n) with
  | some _ => true
  | none => rtOk (kp.2.rem, st.find, st.repl) (findRefs st.find kp.2.rem).reverse

/-- the model's state as the state of the translated loop -/
def pack (s : Str) (st : IaddSt) : St := (⟨s, st.f⟩, st.find, st.repl)

/-- What one round of `for key, settings_add, settings_rem in incoming_fmts` has to do, whatever it looks
    like (`n` = `shift`, `s` the text of `self`, `later` the start markers of the incoming table away from
    its key 0): -/
structure OuterSpec (n : Nat) (s : Str) (later : List Setting)
    (step : St → Int × List Setting × List Setting → Except Exc St) : Prop where
  /-- `key` not in the table: new point, then the retarget loop — the only place an exception can come from -/
  absent : ∀ (F : Fmts) (find repl : List Setting) (k : Nat) (add rem : List Setting),
    F.get? (k + n) = none →
    step (⟨s, F⟩, find, repl) ((k : Int), add, rem) =
      if rtOk (rem, find, repl) (findRefs find rem).reverse then
        .ok (⟨s, F.set (k + n) ⟨add, (retarget rem find repl (findRefs find rem)).1⟩⟩,
             (retarget rem find repl (findRefs find rem)).2.1,
             (retarget rem find repl (findRefs find rem)).2.2)
      else .error (.py .indexError)
  /-- the seam merge that leaves nothing at the key -/
  mergeDel : ∀ (F : Fmts) (find repl : List Setting) (k : Nat) (add rem : List Setting) (mine : Point),
    F.get? (k + n) = some mine → k = 0 → mergeCond (actPrevOf s n F) later mine add = true →
    ((!({ mine with rem := mine.rem.drop add.length } : Point).nonEmpty) = true ∧ rem.isEmpty = true) →
    step (⟨s, F⟩, find, repl) ((k : Int), add, rem) =
      .ok (⟨s, F.erase (k + n)⟩, add, mine.rem.take add.length)
  /-- the seam merge that leaves something at the key -/
  mergeKeep : ∀ (F : Fmts) (find repl : List Setting) (k : Nat) (add rem : List Setting) (mine : Point),
    F.get? (k + n) = some mine → k = 0 → mergeCond (actPrevOf s n F) later mine add = true →
    ¬ ((!({ mine with rem := mine.rem.drop add.length } : Point).nonEmpty) = true ∧ rem.isEmpty = true) →
    step (⟨s, F⟩, find, repl) ((k : Int), add, rem) =
      .ok (⟨s, F.set (k + n) { add := mine.add, rem := mine.rem.drop add.length ++ rem }⟩, add,
           mine.rem.take add.length)
  /-- no merge: both lists of the point are extended -/
  extend : ∀ (F : Fmts) (find repl : List Setting) (k : Nat) (add rem : List Setting) (mine : Point),
    F.get? (k + n) = some mine → ¬ (k = 0 ∧ mergeCond (actPrevOf s n F) later mine add = true) →
    step (⟨s, F⟩, find, repl) ((k : Int), add, rem) =
      .ok (⟨s, F.set (k + n) { add := mine.add ++ add, rem := mine.rem ++ rem }⟩, find, repl)

/-- the four clauses in one: the round is the model's `iaddStep`, or IndexError -/
theorem OuterSpec.round {n : Nat} {s : Str} {later : List Setting}
    {step : St → Int × List Setting × List Setting → Except Exc St} (h : OuterSpec n s later step)
    (F : Fmts) (find repl : List Setting) (k : Nat) (add rem : List Setting) :
    step (⟨s, F⟩, find, repl) ((k : Int), add, rem) =
      if roundOk n ⟨F, find, repl⟩ (k, ⟨add, rem⟩) then
        .ok (pack s (iaddStep n (actPrevOf s n F) later ⟨F, find, repl⟩ (k, ⟨add, rem⟩)))
      else .error (.py .indexError) := by
  cases hg : F.get? (k + n) with
  | none =>
    rw [h.absent F find repl k add rem hg]
    simp only [roundOk, hg, iaddStep, pack]
  | some mine =>
    have hok : roundOk n ⟨F, find, repl⟩ (k, ⟨add, rem⟩) = true := by simp only [roundOk, hg]
    rw [hok, if_pos rfl, iaddStep_some' n _ later ⟨F, find, repl⟩ k ⟨add, rem⟩ mine hg]
    by_cases hm : k = 0 ∧ mergeCond (actPrevOf s n F) later mine add = true
    · rw [if_pos hm]
      by_cases hd : ((!({ mine with rem := mine.rem.drop add.length } : Point).nonEmpty) = true ∧ rem.isEmpty = true)
      · rw [if_pos hd, h.mergeDel F find repl k add rem mine hg hm.1 hm.2 hd]; rfl
      · rw [if_neg hd, h.mergeKeep F find repl k add rem mine hg hm.1 hm.2 hd]; rfl
    · rw [if_neg hm, h.extend F find repl k add rem mine hg hm]; rfl

/-! ## The loop over the incoming table -/

/-- does the whole loop end normally (`false` = IndexError in some retarget loop) -/
def iaddOk (n : Nat) (A later : List Setting) : IaddSt → Fmts → Bool
  | _, [] => true
  | st, kp :: rest => roundOk n st kp && iaddOk n A later (iaddStep n A later st kp) rest

theorem iaddOk_cons (n : Nat) (A later : List Setting) (st : IaddSt) (kp : Nat × Point) (rest : Fmts) :
    iaddOk n A later st (kp :: rest) =
      (roundOk n st kp && iaddOk n A later (iaddStep n A later st kp) rest) := rfl

/-- the items the translated loop runs over -/
def enc (kp : Nat × Point) : Int × List Setting × List Setting := ((kp.1 : Int), kp.2.add, kp.2.rem)

/-- THE LOOP away from the seam (no key 0 among the incoming ones), for any loop body meeting `OuterSpec` -/
theorem fold_outer {n : Nat} {s : Str} {later : List Setting}
    {step : St → Int × List Setting × List Setting → Except Exc St} (h : OuterSpec n s later step)
    (A : List Setting) :
    ∀ (L : Fmts) (st : IaddSt), (∀ kp ∈ L, kp.1 ≠ 0) →
      List.foldlM step (pack s st) (L.map enc) =
        if iaddOk n A later st L then .ok (pack s (L.foldl (iaddStep n A later) st))
        else .error (.py .indexError) := by
  intro L
  induction L with
  | nil => intro st _; rfl
  | cons kp L ih =>
    intro st hL
    obtain ⟨k, add, rem⟩ := kp
    obtain ⟨F, find, repl⟩ := st
    have hk : k ≠ 0 := hL (k, ⟨add, rem⟩) (by simp)
    rw [List.map_cons, List.foldlM_cons]
    show (step (⟨s, F⟩, find, repl) ((k : Int), add, rem)).bind _ = _
    rw [h.round F find repl k add rem, iaddStep_irrel n _ A later _ _ hk]
    rw [iaddOk_cons, List.foldl_cons]
    cases hok : roundOk n ⟨F, find, repl⟩ (k, ⟨add, rem⟩) with
    | false => rfl
    | true =>
      simp only [if_true, Bool.true_and, bind_ok]
      exact ih _ (fun kp hkp => hL kp (List.mem_cons_of_mem _ hkp))

/-- the criterion of the whole method, on the model side: no index of a retarget loop runs out -/
def coreOk (a b : AStr) : Bool :=
  iaddOk a.len (({ a with s := a.s ++ b.s } : AStr).ansiSettingsAt ((a.len : Int) - 1))
    ((b.fmts.filter (fun kp => kp.1 != 0)).flatMap (fun kp => kp.2.add))
    { f := a.fmts, find := [], repl := [] } b.fmts

theorem iadd_def (a b : AStr) :
    a.iadd b = ⟨a.s ++ b.s,
      (b.fmts.foldl (iaddStep a.len (({ a with s := a.s ++ b.s } : AStr).ansiSettingsAt ((a.len : Int) - 1))
        ((b.fmts.filter (fun kp => kp.1 != 0)).flatMap (fun kp => kp.2.add)))
        { f := a.fmts, find := [], repl := [] }).f⟩ := rfl

/-- the loop with what comes before (the initial state) and after it (returning `self`); the incoming table
    is sorted, so only its first round can be at the seam, and there the table is still the one of `a` -/
theorem core_frame {a b : AStr} {step : St → Int × List Setting × List Setting → Except Exc St}
    {k : St → Except Exc AStr} {init : St} {items : List (Int × List Setting × List Setting)}
    (hsb : SortedKeys b.fmts)
    (hstep : OuterSpec a.len (a.s ++ b.s)
      ((b.fmts.filter (fun kp => kp.1 != 0)).flatMap (fun kp => kp.2.add)) step)
    (hinit : init = (⟨a.s ++ b.s, a.fmts⟩, [], []))
    (hitems : items = b.fmts.map (fun kp => ((kp.1 : Int), kp.2.add, kp.2.rem)))
    (hk : ∀ x f r, k (x, f, r) = .ok x) :
    (List.foldlM step init items).bind k =
      if coreOk a b then .ok (a.iadd b) else .error (.py .indexError) := by
  subst hinit hitems
  unfold coreOk
  rw [iadd_def]
  generalize hA : ({ a with s := a.s ++ b.s } : AStr).ansiSettingsAt ((a.len : Int) - 1) = A
  generalize hlater : (b.fmts.filter (fun kp => kp.1 != 0)).flatMap (fun kp => kp.2.add) = later at hstep ⊢
  have hA' : actPrevOf (a.s ++ b.s) a.len a.fmts = A := hA
  cases hb : b.fmts with
  | nil => simp only [List.map_nil, List.foldlM_nil, iaddOk, List.foldl_nil, if_true]; rw [pure_ok, bind_ok, hk]
  | cons kp L =>
    rw [hb] at hsb
    obtain ⟨k0, add, rem⟩ := kp
    have hL : ∀ kp ∈ L, kp.1 ≠ 0 := by
      intro kp hkp
      have := (List.pairwise_cons.mp hsb).1 kp hkp
      simp only at this
      omega
    rw [List.map_cons, List.foldlM_cons]
    show ((step (⟨a.s ++ b.s, a.fmts⟩, [], []) ((k0 : Int), add, rem)).bind _).bind _ = _
    rw [hstep.round, hA', iaddOk_cons, List.foldl_cons]
    cases hok : roundOk a.len ⟨a.fmts, [], []⟩ (k0, ⟨add, rem⟩) with
    | false => rfl
    | true =>
      simp only [if_true, Bool.true_and, bind_ok]
      have := fold_outer hstep A L (iaddStep a.len A later ⟨a.fmts, [], []⟩ (k0, ⟨add, rem⟩)) hL
      unfold enc at this
      rw [this]
      cases iaddOk a.len A later (iaddStep a.len A later ⟨a.fmts, [], []⟩ (k0, ⟨add, rem⟩)) L with
      | false => rfl
      | true => simp only [if_true, bind_ok, pack, hk]

/-- `any(later_key != 0 and find(s, later_add) >= 0 for …)` for every `s` of the head: the object starts
    again later in the incoming table — for any shape of the item and of the test that agree pointwise -/
theorem later_any {τ : Type} (head : List Setting) (L : Fmts) {f : Nat × Point → τ} {P : Setting → τ → Bool}
    (hP : ∀ s kp, P s (f kp) = (kp.1 != 0 && hasId kp.2.add s.id)) :
    head.any (fun s => (L.map f).any (P s)) =
      head.any (fun s => hasId ((L.filter (fun kp => kp.1 != 0)).flatMap (fun kp => kp.2.add)) s.id) := by
  congr 1
  funext s
  induction L with
  | nil => rfl
  | cons kp L ih =>
    rw [List.map_cons, List.any_cons, hP, ih, List.filter_cons]
    cases h : (kp.1 != 0)
    · simp
    · simp [List.flatMap_cons, ConcatL.hasId_append]

/-! ## Totality: when no stop list of the incoming table holds an object twice, no index runs out -/

theorem rtOk_append (acc : List Setting × List Setting × List Setting) (l1 l2 : List (Nat × Nat)) :
    rtOk acc (l1 ++ l2) = (rtOk acc l1 && rtOk (l1.foldl rtStep acc) l2) := by
  induction l1 generalizing acc with
  | nil => simp [rtOk]
  | cons x l1 ih => rw [List.cons_append, rtOk_cons, rtOk_cons, ih, List.foldl_cons, Bool.and_assoc]

theorem rtStep_shift1 (rem find repl : List Setting) (f r : Setting) (p : Nat × Nat) :
    rtStep (rem, f :: find, r :: repl) (p.1 + 1, p.2) =
      ((rtStep (rem, find, repl) p).1, f :: (rtStep (rem, find, repl) p).2.1,
        r :: (rtStep (rem, find, repl) p).2.2) := by
  have := rtStep_shift [p] rem find repl f r
  simpa using this

theorem rtOk_shift (L : List (Nat × Nat)) (rem find repl : List Setting) (f r : Setting) :
    rtOk (rem, f :: find, r :: repl) (L.map (fun p => (p.1 + 1, p.2))) = rtOk (rem, find, repl) L := by
  induction L generalizing rem find repl with
  | nil => rfl
  | cons p L ih =>
    rw [List.map_cons, rtOk_cons, rtOk_cons, rtStep_shift1, ih]
    congr 1
    simp [rtStepOk]

theorem rtStep_rem_length (acc : List Setting × List Setting × List Setting) (fa : Nat × Nat) :
    (rtStep acc fa).1.length = acc.1.length := by
  unfold rtStep
  cases acc.2.2[fa.1]? <;> simp

theorem fold_rtStep_rem_length (L : List (Nat × Nat)) (acc : List Setting × List Setting × List Setting) :
    (L.foldl rtStep acc).1.length = acc.1.length := by
  induction L generalizing acc with
  | nil => rfl
  | cons x L ih => rw [List.foldl_cons, ih, rtStep_rem_length]

theorem rtStep_len_eq (acc : List Setting × List Setting × List Setting) (fa : Nat × Nat)
    (h : acc.2.1.length = acc.2.2.length) : (rtStep acc fa).2.1.length = (rtStep acc fa).2.2.length := by
  unfold rtStep
  cases acc.2.2[fa.1]? with
  | none => exact h
  | some r => simp only [List.length_eraseIdx, h]

theorem fold_rtStep_len_eq (L : List (Nat × Nat)) (acc : List Setting × List Setting × List Setting)
    (h : acc.2.1.length = acc.2.2.length) :
    (L.foldl rtStep acc).2.1.length = (L.foldl rtStep acc).2.2.length := by
  induction L generalizing acc with
  | nil => exact h
  | cons x L ih => rw [List.foldl_cons]; exact ih _ (rtStep_len_eq acc x h)

/-- the retarget loop ends normally: `find_settings` and `replace_settings` are equally long and every
    `find_idx` occurs once, so the indices, walked from the back, stay inside -/
theorem rtOk_of_nodup (rem find repl : List Setting) (hl : find.length = repl.length)
    (hn : (rem.map (·.id)).Nodup) : rtOk (rem, find, repl) (findRefs find rem).reverse = true := by
  induction find generalizing repl with
  | nil => rfl
  | cons f find ih =>
    cases repl with
    | nil => simp at hl
    | cons r repl =>
      have hl' : find.length = repl.length := by simpa using hl
      rw [findRefs_cons, List.reverse_append, ← List.map_reverse, rtOk_append, rtOk_shift, ih repl hl',
        Bool.true_and, rtStep_shift]
      rcases matchIdxFrom_cases 0 rem f.id hn with ⟨h1, _⟩ | ⟨l1, x, l2, e, _, _, _, h3⟩
      · rw [matchIdx_eq, h1]; rfl
      · rw [matchIdx_eq, h3]
        simp only [List.map_cons, List.map_nil, List.reverse_cons, List.reverse_nil, List.nil_append, rtOk_cons,
          rtOk, Bool.and_true, rtStepOk, fold_rtStep_rem_length]
        subst e
        simp

/-- `find_settings` and `replace_settings` stay equally long -/
theorem iaddStep_len_eq (n : Nat) (A later : List Setting) (st : IaddSt) (kp : Nat × Point)
    (h : st.find.length = st.repl.length) :
    (iaddStep n A later st kp).find.length = (iaddStep n A later st kp).repl.length := by
  obtain ⟨k, p⟩ := kp
  cases hg : st.f.get? (k + n) with
  | none =>
    simp only [iaddStep, hg, retarget_def]
    exact fold_rtStep_len_eq _ _ h
  | some mine =>
    rw [iaddStep_some' n A later st k p mine hg]
    split
    · rename_i hm
      have := mergeCond_length hm.2
      split <;> exact this.symm
    · exact h

theorem iaddOk_of_nodup (n : Nat) (A later : List Setting) :
    ∀ (L : Fmts) (st : IaddSt), (∀ kp ∈ L, (kp.2.rem.map (·.id)).Nodup) →
      st.find.length = st.repl.length → iaddOk n A later st L = true := by
  intro L
  induction L with
  | nil => intros; rfl
  | cons kp L ih =>
    intro st hn hl
    rw [iaddOk_cons, ih _ (fun kp' h => hn kp' (List.mem_cons_of_mem _ h)) (iaddStep_len_eq n A later st kp hl),
      Bool.and_true]
    unfold roundOk
    cases st.f.get? (kp.1 + n) with
    | some _ => rfl
    | none => exact rtOk_of_nodup _ _ _ hl (hn kp (by simp))

theorem coreOk_of_nodup (a b : AStr) (hn : ∀ kp ∈ b.fmts, (kp.2.rem.map (·.id)).Nodup) : coreOk a b = true :=
  iaddOk_of_nodup _ _ _ _ _ hn rfl

end L

open L C06d.L C07c.L ConcatL

/-- the method was translated (did not fall outside the translator's fragment) -/
theorem translated : Gen.iaddCoreOk = true := by decide

/-- the statements of one round rewritten by the lemmas of `L` (the facts about the key come as arguments) -/
local macro "iadd_simp" "[" ts:Lean.Parser.Tactic.simpLemma,* "]" : tactic =>
  `(tactic| simp only [$ts,*, key_cast, key_eq_shift, key_eq_shift', C06d.L.bind_ok, C07c.L.bind_error,
      modifyAt_set_self, get_set_self, set_set_self, C06d.L.set_nat, listSlice_take, listSlice_drop,
      C05c.same_references_is_code, C05c.find_references_is_code, C06d.L.find_ge_zero, C06d.L.find_lt_zero,
      C15c.point_bool_is_code, C06d.L.length_eq_zero_dec, C06d.L.length_ne_zero_dec, C06d.L.length_pos_dec,
      List.append_nil, decide_true, decide_false, Bool.not_true, Bool.not_false, Bool.not_not,
      Bool.false_eq_true, if_true, if_false])

/-- `any(… for later_key, later_add, _ in incoming_fmts)` under the `any` over the head, when it is there -/
local macro "later_simp" : tactic =>
  `(tactic| try rw [later_any _ _ (by intro s kp; first | rfl | (simp; done) | (simp; grind) | grind)])

set_option linter.unusedSimpArgs false in
/-- THE TRANSLATED STATEMENTS OF `__iadd__` AND THE MODEL: equal, but for the IndexError of the retarget loop,
    which the model side predicts exactly (`coreOk`).  Nothing is asked of `self`. -/
theorem iaddCore_eq (a b : AStr) (hsb : SortedKeys b.fmts) :
    Gen.iaddCore a b.s b.fmts = if coreOk a b then .ok (a.iadd b) else .error (.py .indexError) := by
  unfold Gen.iaddCore
  refine core_frame hsb ?spec rfl rfl ?k
  case k =>
    -- what follows the loop: `return self`
    intro x f r
    first | rfl | simp
  case spec =>
    refine ⟨?_, ?_, ?_, ?_⟩
    · -- `key` not in the table: the new point and the retarget loop
      intro F find repl k add rem hg
      simp only [AStr.len] at hg ⊢
      iadd_simp [has_of_get?_none hg]
      rw [fold_inner (K := k + a.s.length) ?ispec add]
      case ispec =>
        intro F p find repl i j hgp
        unfold rtStepOk rtStep
        cases hr : repl[i]? with
        | none =>
          have : ¬ i < repl.length := by
            intro hlt
            rw [List.getElem?_eq_getElem hlt] at hr
            cases hr
          simp [-Int.natCast_add, getIdx_out hr, this, bind_error]
        | some r =>
          have hlt := lt_of_getElem? hr
          by_cases h1 : i < find.length <;> by_cases h2 : j < p.rem.length <;>
            simp [-Int.natCast_add, getIdx_nat hr, get_of_get? hgp, setIdx_nat, setIdx_out, set_nat, delIdx_nat,
              delIdx_out, bind_ok, bind_error, hlt, h1, h2, hr]
      rw [retarget_def]
      generalize findRefs find rem = fs
      cases fs with
      | nil => first | rfl | simp [rtOk, bind_ok]
      | cons x fs =>
        try simp only [List.isEmpty_cons, Bool.not_false, Bool.not_true, Bool.false_eq_true, if_true, if_false]
        split <;> rfl
    · -- the seam merge, nothing left at the key
      intro F find repl k add rem mine hg hk hm hd
      subst hk
      simp only [AStr.len, actPrevOf, mergeCond, Bool.and_eq_true] at hg hm hd ⊢
      obtain ⟨⟨⟨h1, h2⟩, h3⟩, h4⟩ := hm
      iadd_simp [has_of_get?_some hg, get_of_get? hg, modifyAt_set _ hg]
      later_simp
      iadd_simp [h1, h2, h3, h4, del_set_self _ hg]
      first | rfl | (split <;> first | rfl | (exfalso; simp_all))
    · -- the seam merge, something left at the key
      intro F find repl k add rem mine hg hk hm hd
      subst hk
      simp only [AStr.len, actPrevOf, mergeCond, Bool.and_eq_true] at hg hm hd ⊢
      obtain ⟨⟨⟨h1, h2⟩, h3⟩, h4⟩ := hm
      iadd_simp [has_of_get?_some hg, get_of_get? hg, modifyAt_set _ hg]
      later_simp
      iadd_simp [h1, h2, h3, h4, del_set_self _ hg]
      first | rfl | (split <;> first | rfl | (exfalso; simp_all))
    · -- no merge: every way out of the condition chain extends the two lists of the point
      intro F find repl k add rem mine hg hm
      simp only [AStr.len, actPrevOf, mergeCond] at hg hm ⊢
      iadd_simp [has_of_get?_some hg, get_of_get? hg, modifyAt_set _ hg]
      later_simp
      repeat' split
      all_goals first | rfl | (exfalso; apply hm; simp_all)

/-- 2. the only way not to return the model's value is the IndexError of the retarget loop: no KeyError
    (`Exc.key`), nothing outside the model's representation (`Exc.outside`), no other Python exception.
    (`_hsa` is not used: the statements treat the table of `self` as a dictionary whatever its order.) -/
theorem iaddCore_outcomes (a b : AStr) (_hsa : SortedKeys a.fmts) (hsb : SortedKeys b.fmts) :
    Gen.iaddCore a b.s b.fmts = .ok (a.iadd b) ∨ Gen.iaddCore a b.s b.fmts = .error (.py .indexError) := by
  rw [iaddCore_eq a b hsb]
  split
  · exact Or.inl rfl
  · exact Or.inr rfl

/-- 1. PARTIAL CORRECTNESS: whenever the translated statements of `__iadd__` return, they return the
    model's value -/
theorem iaddCore_sound (a b : AStr) (hsa : SortedKeys a.fmts) (hsb : SortedKeys b.fmts) (y : AStr)
    (h : Gen.iaddCore a b.s b.fmts = .ok y) : y = a.iadd b := by
  rcases iaddCore_outcomes a b hsa hsb with h' | h'
  · rw [h'] at h
    injection h with h
    exact h.symm
  · rw [h'] at h
    cases h

/-- 3, the exact criterion: the statements return the model's value when no index of a retarget loop runs
    out (`coreOk`, a Boolean function of the model) — and only then -/
theorem iaddCore_is_code_partial (a b : AStr) (hsb : SortedKeys b.fmts) :
    Gen.iaddCore a b.s b.fmts = .ok (a.iadd b) ↔ coreOk a b = true := by
  rw [iaddCore_eq a b hsb]
  split
  · simp [*]
  · rename_i h
    simp [h]

/-- 3, under the weakest natural hypothesis: no stop list of the incoming table holds an object twice
    (nothing is asked of `self`) -/
theorem iaddCore_is_code_nodup (a b : AStr) (hsb : SortedKeys b.fmts)
    (hn : ∀ kp ∈ b.fmts, (kp.2.rem.map (·.id)).Nodup) : Gen.iaddCore a b.s b.fmts = .ok (a.iadd b) := by
  rw [iaddCore_eq a b hsb, coreOk_of_nodup a b hn]
  rfl

/-- 3. TOTAL CORRECTNESS on well-formed values: the translated statements of `__iadd__` compute the model
    function; in particular no IndexError, no KeyError, nothing outside the model (of `WF a` nothing is used) -/
theorem iaddCore_is_code (a b : AStr) (_ha : WF a) (hb : WF b) : Gen.iaddCore a b.s b.fmts = .ok (a.iadd b) :=
  iaddCore_is_code_nodup a b hb.sorted (wf_rem_nodup_mem hb)

/-! ## Non-vacuity and concrete runs -/

/-- "abc": `31` (object 0) over [0,3), `1` (object 1) over [1,3) -/
def a0 : AStr :=
  { s := "abc".toList,
    fmts := [(0, { add := [⟨0, "31".toList⟩] }), (1, { add := [⟨1, "1".toList⟩] }),
             (3, { rem := [⟨0, "31".toList⟩, ⟨1, "1".toList⟩] })] }

/-- "de": `31` (object 5) over [0,2), `1` (object 6) over [0,1): both continue what `a0` ends with -/
def b0 : AStr :=
  { s := "de".toList,
    fmts := [(0, { add := [⟨5, "31".toList⟩, ⟨6, "1".toList⟩] }), (1, { rem := [⟨6, "1".toList⟩] }),
             (2, { rem := [⟨5, "31".toList⟩] })] }

/-- "de": `4` (object 5) over [1,2): nothing at the seam -/
def b2 : AStr :=
  { s := "de".toList, fmts := [(1, { add := [⟨5, "4".toList⟩] }), (2, { rem := [⟨5, "4".toList⟩] })] }

theorem a0_wf : WF a0 where
  sorted := by unfold SortedKeys; decide
  bound := by decide
  noAddEnd := by decide
  ok := by decide
  nodup := by
    intro i
    rcases i with _ | _ | _ | _ | i
    · decide
    · decide
    · decide
    · decide
    · simp [active, activeFrom, a0, stepPoint, eraseId]
  closed := by decide
  coherent := by decide

theorem b0_wf : WF b0 where
  sorted := by unfold SortedKeys; decide
  bound := by decide
  noAddEnd := by decide
  ok := by decide
  nodup := by
    intro i
    rcases i with _ | _ | _ | i
    · decide
    · decide
    · decide
    · simp [active, activeFrom, b0, stepPoint, eraseId]
  closed := by decide
  coherent := by decide

/-- the hypotheses of the theorems hold for `a0`, `b0` -/
example : SortedKeys a0.fmts ∧ SortedKeys b0.fmts ∧ WF a0 ∧ WF b0 ∧
    (∀ kp ∈ b0.fmts, (kp.2.rem.map (·.id)).Nodup) :=
  ⟨a0_wf.sorted, b0_wf.sorted, a0_wf, b0_wf, wf_rem_nodup_mem b0_wf⟩

example : Gen.iaddCore a0 b0.s b0.fmts = .ok (a0.iadd b0) := by decide +kernel
example : Gen.iaddCore a0 b2.s b2.fmts = .ok (a0.iadd b2) := by decide +kernel
example : Gen.iaddCore b0 a0.s a0.fmts = .ok (b0.iadd a0) := by decide +kernel
example : Gen.iaddCore a0 a0.s a0.fmts = .ok (a0.iadd a0) := by decide +kernel
example : coreOk a0 b0 = true := by decide +kernel

/-- the value itself: the seam merge (the two stop markers of `a0` at 3 and the two start markers of `b0`
    at 0 go away, nothing is left at key 3) and the retargeting (the stop markers of `b0` now stop the
    objects 1 and 0 of `a0`) -/
example : Gen.iaddCore a0 b0.s b0.fmts = .ok
    { s := "abcde".toList,
      fmts := [(0, { add := [⟨0, "31".toList⟩] }), (1, { add := [⟨1, "1".toList⟩] }),
               (4, { rem := [⟨1, "1".toList⟩] }), (5, { rem := [⟨0, "31".toList⟩] })] } := by
  decide +kernel

/-- An ill-formed (sorted) incoming table on which the code raises IndexError while the model's `retarget`
    is total: the stop list at 2 holds the object 5 twice, so `finds` is `[(0, 0), (0, 1)]`; after the first
    round `find_settings` and `replace_settings` are empty and `replace_settings[0]` runs off the list. -/
def a1 : AStr :=
  { s := "abc".toList, fmts := [(0, { add := [⟨0, "31".toList⟩] }), (3, { rem := [⟨0, "31".toList⟩] })] }
def bBad : AStr :=
  { s := "de".toList,
    fmts := [(0, { add := [⟨5, "31".toList⟩] }), (2, { rem := [⟨5, "31".toList⟩, ⟨5, "31".toList⟩] })] }

example : SortedKeys a1.fmts ∧ SortedKeys bBad.fmts := by unfold SortedKeys; decide
example : Gen.iaddCore a1 bBad.s bBad.fmts = .error (.py .indexError) := by decide +kernel
example : coreOk a1 bBad = false := by decide +kernel

/-- the criterion is exact, the hypothesis of `iaddCore_is_code_nodup` only sufficient: an object twice in
    a stop list, but the repeated index is not the last one — the code returns (the model's value) -/
def bDup : AStr :=
  { s := "de".toList,
    fmts := [(0, { add := [⟨5, "31".toList⟩, ⟨6, "1".toList⟩] }),
             (2, { rem := [⟨5, "31".toList⟩, ⟨5, "31".toList⟩] })] }

example : Gen.iaddCore a0 bDup.s bDup.fmts = .ok (a0.iadd bDup) := by decide +kernel
example : ¬ ∀ kp ∈ bDup.fmts, (kp.2.rem.map (·.id)).Nodup := by decide

end C05d

#print axioms C05d.iaddCore_eq
#print axioms C05d.iaddCore_sound
#print axioms C05d.iaddCore_outcomes
#print axioms C05d.iaddCore_is_code_partial
#print axioms C05d.iaddCore_is_code_nodup
#print axioms C05d.iaddCore_is_code
