import AnsiProofs.Lemmas.Effects
/-
  Property C18 — `parse_graphic_sequence` and `settings_to_dict` against a conforming terminal.

  "parse_graphic_sequence accepts a ';'-separated string or a list of ints/strings and splits it
  into settings such that reducing them in order with settings_to_dict gives exactly the effect
  state a conforming terminal reaches from its default state on the same code list:
  extended-colour groups are kept intact at any position, incomplete groups and unknown codes
  contribute nothing when add_erroneous=False, an empty sequence means reset; with
  add_erroneous=True every integer token of the input appears, in order, in the returned settings.
  settings_to_dict(settings, old) equals applying the same codes on top of old: an apply code
  replaces the entry of its effect group, a clear code deletes it, reset empties the state, and the
  arguments are not modified."

  Notation (definitions in `AnsiProofs/Lemmas/Effects.lean`, all hand-written, none generated):
  * `Eff.groupOfEff : Nat → Option Term.Group` — the library's effect numbers as terminal groups;
  * `Eff.settingVal t` — the codes of a setting text, if every parameter is a number;
  * `Eff.alpha d : Term.TState` — the terminal state a dict stands for (the FONT_TYPE entry whose
    value is `[10]` stands for "default font": the library files code 10 as an *apply*, a terminal
    clears the group);
  * `Eff.DictOK d` — keys pairwise distinct, every entry a group text filed under the effect its
    first code applies;
  * `Eff.ints codes` — `codes.map (fun (c : Nat) => Code.int (c : Int))`, a list of ints as
    `parse_graphic_sequence` receives it; `Eff.joinNats l` — `';'.join(str(c) for c in l)`.
  "The arguments are not modified" is built into the model (pure functions of immutable lists).

  Everything is proved for all code lists, all settings lists and all dicts (no size limit); the
  facts about the generated tables are `decide`d, so they are re-checked when the tables change.
-/

open Term Eff

namespace C18

/-! ### 1. the library's code table agrees with the terminal's -/

/-- the Boolean comparison of `AnsiParam(c)` with `Term.specEffect c` for all `c < 256` (plus: the
    three `AnsiParamEffectFn` values are distinct, every key of the table is below 256) -/
theorem tables_agree : tablesAgreeCheck = true := by decide +kernel

/-- the numbering `groupOfEff` assumes is the one of `AnsiParamEffect` -/
theorem effNames_numbering : Gen.effNames =
    [(1, "RESET"), (2, "BOLDNESS"), (3, "ITALICS"), (4, "UNDERLINE"), (5, "OVERLINE"), (6, "BLINKING"),
     (7, "SWAP_BG_FG"), (8, "VISIBILITY"), (9, "CROSSED_OUT"), (10, "FONT_TYPE"), (11, "SPACING"),
     (12, "BOXING"), (13, "FG_COLOR"), (14, "BG_COLOR"), (15, "UL_COLOR")] := by decide

/-- a code is unknown to the library iff it is unknown to the terminal (every `c`, not only `< 256`) -/
theorem tables_agree_none (c : Nat) : ansiParam (c : Int) = none ↔ specEffect c = none := by
  have ps := param_spec c
  generalize ansiParam (c : Int) = q, specEffect c = a at ps ⊢
  cases ps <;> simp

/-- the library's function of a known code is one of the three enum values -/
theorem tables_agree_fn {c e fn : Nat} (h : ansiParam (c : Int) = some (e, fn)) :
    fn = Gen.fnResetAll ∨ fn = Gen.fnApply ∨ fn = Gen.fnClear := by
  have ps := param_spec c
  rw [h] at ps
  generalize specEffect c = a at ps
  cases ps <;> simp

theorem tables_agree_reset {c e fn : Nat} (h : ansiParam (c : Int) = some (e, fn)) :
    fn = Gen.fnResetAll ↔ specEffect c = some .reset := by
  have hd := fn_distinct
  have ps := param_spec c
  rw [h] at ps
  have h1 : Gen.fnClear ≠ Gen.fnResetAll := fun h => hd.2.1 h.symm
  have h2 : Gen.fnApply ≠ Gen.fnResetAll := fun h => hd.1 h.symm
  generalize specEffect c = a at ps
  cases ps <;> simp [h1, h2]

theorem tables_agree_clear {c e fn : Nat} (h : ansiParam (c : Int) = some (e, fn)) (hf : fn = Gen.fnClear) :
    ∃ g, groupOfEff e = some g ∧ specEffect c = some (.clear g) := by
  have hd := fn_distinct
  have ps := param_spec c
  rw [h] at ps
  subst hf
  generalize specEffect c = a at ps
  generalize hq : Gen.fnClear = q at ps
  cases ps
  · exact absurd hq.symm hd.2.1
  · exact ⟨_, ‹_›, rfl⟩
  · exact absurd hq.symm hd.2.2
  · exact absurd hq.symm hd.2.2
  · exact absurd hq.symm hd.2.2

theorem tables_agree_apply {c e fn : Nat} (h : ansiParam (c : Int) = some (e, fn)) (hf : fn = Gen.fnApply) :
    ∃ g, groupOfEff e = some g ∧
      (specEffect c = some (.set g) ∨ specEffect c = some (.ext g) ∨
        (c = 10 ∧ specEffect c = some (.clear g))) := by
  have hd := fn_distinct
  have ps := param_spec c
  rw [h] at ps
  subst hf
  generalize specEffect c = a at ps
  generalize hq : Gen.fnApply = q at ps
  cases ps
  · exact absurd hq.symm hd.1
  · exact absurd hq hd.2.2
  · exact ⟨_, ‹_›, .inl rfl⟩
  · exact ⟨_, ‹_›, .inr (.inl rfl)⟩
  · exact ⟨_, ‹_›, .inr (.inr ⟨‹_›, rfl⟩)⟩

/-- codes from 256 on are unknown on both sides -/
theorem codes_ge_256_unknown {c : Nat} (h : 256 ≤ c) : ansiParam (c : Int) = none ∧ specEffect c = none :=
  ⟨ansiParam_ge h, specEffect_ge (by omega)⟩

/-- negative codes are unknown to the library -/
theorem codes_negative_unknown {i : Int} (h : i < 0) : ansiParam i = none := by simp [ansiParam, h]

example : ansiParam ((38 : Nat) : Int) = some (13, Gen.fnApply) ∧ specEffect 38 = some (.ext .fg) := by decide
example : ansiParam ((10 : Nat) : Int) = some (10, Gen.fnApply) ∧ specEffect 10 = some (.clear .font) := by decide
example : ansiParam ((22 : Nat) : Int) = some (2, Gen.fnClear) ∧ specEffect 22 = some (.clear .boldness) := by decide

/-! ### 2. `EFFECT_CLEAR_DICT` -/

/-- Boolean form (also: the RESET row holds a reset code, effects 2..15 all have a row) -/
theorem clear_correct_check : clearCheck = true := by decide

/-- the clearing code of every effect clears exactly that effect's group on a terminal -/
theorem clear_correct {e code : Nat} (h : (e, code) ∈ Gen.clearTable) (he : e ≠ 1) :
    ∃ g, groupOfEff e = some g ∧ specEffect code = some (.clear g) := clear_row h he

theorem clear_reset {code : Nat} (h : (1, code) ∈ Gen.clearTable) : specEffect code = some .reset :=
  clear_row_reset h

/-- every effect 2..15 has a clearing code -/
theorem clear_total_2_15 {e : Nat} (h2 : 2 ≤ e) (h15 : e ≤ 15) : ∃ code, (e, code) ∈ Gen.clearTable :=
  clear_total h2 h15

example : (13, 39) ∈ Gen.clearTable ∧ (13 : Nat) ≠ 1 := by decide

/-! ### 3. the control functions -/

theorem ctrlFns_eq :
    Gen.ctrlFns = [([38,5],1), ([38,2],3), ([48,5],1), ([48,2],3), ([58,5],1), ([58,2],3)] := by decide

/-! ### 4. `settings_to_dict(settings, old)` = the same codes applied on top of `old` -/

/-- `['0']` (the reset setting) is a group text, so the disjunct of the hypothesis below is subsumed -/
theorem zero_isGroupTxt : isGroupTxt ['0'] = true := by decide

theorem std_apply (ss : List Setting) (old : PyDict)
    (h : ∀ s ∈ ss, isGroupTxt s.txt = true ∨ s.txt = ['0']) (_hold : DictOK old) :
    alpha (settingsToDict ss old) = Term.feed (alpha old) (codesOf ss) :=
  alpha_settingsToDict (fun s hs => (h s hs).elim id (fun e => by rw [e]; exact zero_isGroupTxt)) old

/-- the same without any assumption on `old` (`DictOK old` is not needed for the equation) -/
theorem std_apply_any (ss : List Setting) (old : PyDict)
    (h : ∀ s ∈ ss, isGroupTxt s.txt = true ∨ s.txt = ['0']) :
    alpha (settingsToDict ss old) = Term.feed (alpha old) (codesOf ss) :=
  alpha_settingsToDict (fun s hs => (h s hs).elim id (fun e => by rw [e]; exact zero_isGroupTxt)) old

theorem std_dictOK (ss : List Setting) (old : PyDict)
    (h : ∀ s ∈ ss, isGroupTxt s.txt = true ∨ s.txt = ['0']) (hold : DictOK old) :
    DictOK (settingsToDict ss old) :=
  dictOK_settingsToDict (fun s hs => (h s hs).elim id (fun e => by rw [e]; exact zero_isGroupTxt)) hold

theorem std_nil (old : PyDict) : settingsToDict [] old = old := rfl

/-- one step, spelled out: an apply code replaces the entry of its effect, a clear code deletes it,
    reset (and only reset) empties the dict, an unknown code changes nothing -/
theorem std_step (s : Setting) (ss : List Setting) (d : PyDict) :
    settingsToDict (s :: ss) d = settingsToDict ss
      (match SettingTxt.initialParam s.txt with
       | none => d
       | some (e, fn) =>
         if fn == Gen.fnApply then d.insert e s else if fn == Gen.fnClear then d.erase e else []) := rfl

/-- the feed algebra behind it: a complete group is consumed as a unit -/
theorem feed_codesOf_append (l l' : List Setting) (h : ∀ s ∈ l, isGroupTxt s.txt = true) (t : TState) :
    Term.feed t (codesOf (l ++ l')) = Term.feed (Term.feed t (codesOf l)) (codesOf l') :=
  Eff.feed_codesOf_append h t l'

-- non-vacuity: a non-trivial settings list and a non-trivial `old` satisfy the hypotheses
example : (∀ s ∈ [(⟨1, "1".toList⟩ : Setting), ⟨2, "38;5;214".toList⟩, ⟨3, "22".toList⟩, ⟨4, "10".toList⟩,
      ⟨5, "48;2;1;2;3".toList⟩, ⟨6, "0".toList⟩, ⟨7, "4".toList⟩],
      isGroupTxt s.txt = true ∨ s.txt = ['0']) := by decide

example : DictOK [(13, ⟨7, "38;5;1".toList⟩), (2, ⟨8, "1".toList⟩), (10, ⟨9, "10".toList⟩)] := by
  refine ⟨by decide, ?_⟩
  intro kv hkv
  simp only [List.mem_cons, List.not_mem_nil, or_false] at hkv
  rcases hkv with rfl | rfl | rfl <;> decide

/-! ### 5. `parse_graphic_sequence` + `settings_to_dict` = the terminal -/

theorem pgs_terminal (codes : List Nat) :
    alpha (settingsToDict
        ((pgsList (codes.map (fun (c : Nat) => Code.int (c : Int))) false).map (fun t => (⟨0, t⟩ : Setting))) []) =
      Term.feed Term.default (codes.map some) := by
  by_cases hne : codes = []
  · subst hne
    have h0 : specEffect 0 = some .reset := by decide
    have : pgsList ([].map (fun (c : Nat) => Code.int (c : Int))) false = [['0']] := by decide
    rw [this, alpha_settingsToDict (by simp [zero_isGroupTxt])]
    have : codesOf ([['0']].map (fun t => (⟨0, t⟩ : Setting))) = [some 0] := by decide
    rw [this, feed_reset h0, feed_nil]
    simp [feed_nil]
  · obtain ⟨gs, hgs⟩ := split_exists codes
    have hgv := split_groupVals hgs
    have hnn : ∀ g ∈ gs, g ≠ [] := fun g hg => by cases hgv g hg <;> simp
    show alpha (settingsToDict ((pgsList (ints codes) false).map (fun t => (⟨0, t⟩ : Setting))) []) = _
    rw [pgsList_ints hne, pgsItems_false hgs, alpha_settingsToDict, codesOf_groups gs hnn, alpha_nil,
      split_feed hgs]
    intro s hs
    simp only [List.mem_map] at hs
    obtain ⟨t, ⟨g, hg, rfl⟩, rfl⟩ := hs
    exact isGroupTxt_joinNats (hgv g hg)

example : pgsList ([1, 38, 5, 214, 0, 38, 2, 1, 2, 3, 4, 38, 5].map (fun (c : Nat) => Code.int (c : Int))) false =
    ["1".toList, "38;5;214".toList, "0".toList, "38;2;1;2;3".toList, "4".toList] := by decide

example : pgsList ([38, 7, 48, 5, 300, 99, 58, 2, 1, 2].map (fun (c : Nat) => Code.int (c : Int))) false =
    ["7".toList, "99".toList] := by decide

-- the state the two sides of `pgs_terminal` denote on this input (library side, evaluated)
example : (alpha (settingsToDict
      ((pgsList ([1, 38, 5, 214, 0, 38, 2, 1, 2, 3, 4, 38, 5].map (fun (c : Nat) => Code.int (c : Int))) false).map
        (fun t => (⟨0, t⟩ : Setting))) [])).toList =
    [(.underline, [4]), (.fg, [38, 2, 1, 2, 3])] := by decide

-- the default font (code 10) after font 11: the dict keeps the entry `"10"`, `alpha` reads it as default
example : (alpha (settingsToDict [(⟨1, "11".toList⟩ : Setting), ⟨2, "10".toList⟩, ⟨3, "48;5;7".toList⟩] [])).toList =
    [(.bg, [48, 5, 7])] := by decide

/-! ### 6. extended-colour groups are kept intact -/

theorem pgs_parsable (codes : List Nat) :
    ∀ t ∈ pgsList (codes.map (fun (c : Nat) => Code.int (c : Int))) false,
      ';' ∉ t ∨ SettingTxt.parsable t = true := by
  intro t ht
  by_cases hne : codes = []
  · subst hne
    have : pgsList ([].map (fun (c : Nat) => Code.int (c : Int))) false = [['0']] := by decide
    rw [this] at ht
    simp only [List.mem_singleton] at ht
    subst ht
    exact .inl (by decide)
  · obtain ⟨gs, hgs⟩ := split_exists codes
    change t ∈ pgsList (ints codes) false at ht
    rw [pgsList_ints hne, pgsItems_false hgs] at ht
    obtain ⟨g, hg, rfl⟩ := List.mem_map.1 ht
    cases split_groupVals hgs g hg with
    | single c _ _ _ => exact .inl (fun hm => natStr_noSemi c _ hm rfl)
    | idx c n hc hn => exact .inr (by rw [parsable_idx hc]; simpa using hn)
    | rgb c r g b hc hr hg' hb => exact .inr (by rw [parsable_rgb hc]; simp [hr, hg', hb])

/-- more precisely: every returned text is one complete group (`isGroupTxt`), and the returned texts
    joined are the kept codes -/
theorem pgs_groups (codes : List Nat) :
    ∀ t ∈ pgsList (codes.map (fun (c : Nat) => Code.int (c : Int))) false, isGroupTxt t = true := by
  intro t ht
  by_cases hne : codes = []
  · subst hne
    have : pgsList ([].map (fun (c : Nat) => Code.int (c : Int))) false = [['0']] := by decide
    rw [this] at ht
    simp only [List.mem_singleton] at ht
    subst ht
    exact zero_isGroupTxt
  · obtain ⟨gs, hgs⟩ := split_exists codes
    change t ∈ pgsList (ints codes) false at ht
    rw [pgsList_ints hne, pgsItems_false hgs] at ht
    obtain ⟨g, hg, rfl⟩ := List.mem_map.1 ht
    exact isGroupTxt_joinNats (split_groupVals hgs g hg)

example : SettingTxt.parsable "38;5;214".toList = true ∧ SettingTxt.parsable "38;2;1;2;3".toList = true := by
  decide

/-! ### 7. `add_erroneous=True`: every integer token appears, in order -/

theorem pgs_erroneous_tokens (codes : List Nat) (hne : codes ≠ []) :
    (pgsList (codes.map (fun (c : Nat) => Code.int (c : Int))) true).flatMap (Py.splitOnChar ';') =
      codes.map Py.natStr := by
  show (pgsList (ints codes) true).flatMap (Py.splitOnChar ';') = _
  rw [pgsList_ints hne, pgsItems_true_tokens]

example : pgsList ([38, 7, 48, 5, 300, 99, 58, 2, 1, 2].map (fun (c : Nat) => Code.int (c : Int))) true =
    ["38".toList, "7".toList, "48;5;300".toList, "99".toList, "58;2;1;2".toList] := by decide

/-! ### 8. an empty sequence means reset -/

theorem pgs_empty (b : Bool) : pgsList [] b = ["0".toList] ∧ pgsStr [] b = ["0".toList] := ⟨rfl, rfl⟩

/-! ### 9. string input and list input agree -/

theorem pgs_str_list (codes : List Nat) (hne : codes ≠ []) (b : Bool) :
    pgsStr (joinSep [';'] (codes.map Py.natStr)) b =
      pgsList (codes.map (fun (c : Nat) => Code.int (c : Int))) b :=
  pgsStr_joinNats hne b

example : pgsStr "1;38;5;214;0;38;2;1;2;3;4;38;5".toList false =
    ["1".toList, "38;5;214".toList, "0".toList, "38;2;1;2;3".toList, "4".toList] := by decide

end C18
