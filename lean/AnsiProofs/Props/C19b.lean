import AnsiProofs.Props.C19
/-
  C19 (continued) — the cursor/erase/scroll helpers.  Kept in a file of its own: these theorems are
  about the AST-translated `Gen.helperTable`, which changes when a helper changes; nothing else
  should depend on them.
-/

/-! ## T5 — the cursor/erase/scroll helpers -/

/-- hand-written specification table: documented final byte of each helper -/
def C19Spec.finalByte : List (String × Char) :=
  [("cursor_up_str", 'A'), ("cursor_down_str", 'B'), ("cursor_forward_str", 'C'),
   ("cursor_backward_str", 'D'), ("cursor_next_line_str", 'E'), ("cursor_previous_line_str", 'F'),
   ("cursor_horizontal_absolute_str", 'G'), ("cursor_position_str", 'H'),
   ("erase_in_display_str", 'J'), ("erase_in_line_str", 'K'), ("scroll_up_str", 'S'),
   ("scroll_down_str", 'T')]

/-- what `Main.lean`'s `helper` op computes from a table entry -/
def renderHelper (pieces : List Gen.HelperPiece) (args : List Int) : Str :=
  (pieces.map (fun p => match p with
    | .csi => Gen.csi
    | .lit l => l
    | .arg i => Py.intStr (args.getD i 0))).flatten

/-- Facts about the generated table (re-checked by `decide` whenever it is regenerated): every
    entry was translated, has the documented final byte (a terminator), and has one of the two
    shapes `CSI str(a) fb` (one parameter) or `CSI str(a) ; str(b) fb` (two parameters). -/
theorem helperTable_shape : ∀ e ∈ Gen.helperTable, ∃ p ∈ C19Spec.finalByte,
    p.1 = e.1 ∧ isTerm p.2 = true ∧
    ((e.2.1 = 1 ∧ e.2.2 = some [.csi, .arg 0, .lit [p.2]]) ∨
     (e.2.1 = 2 ∧ e.2.2 = some [.csi, .arg 0, .lit [';'], .arg 1, .lit [p.2]])) := by
  decide

/-- every documented helper is present in the generated table (and vice versa by the above) -/
theorem helperTable_complete :
    ∀ p ∈ C19Spec.finalByte, ∃ e ∈ Gen.helperTable, e.1 = p.1 ∧ e.2.2.isSome = true := by
  decide

theorem helper_one_sequence (name : String) (nargs : Nat) (pieces : List Gen.HelperPiece)
    (hmem : (name, nargs, some pieces) ∈ Gen.helperTable)
    (args : List Int) (hargs : args.length = nargs) :
    ∃ fb, (name, fb) ∈ C19Spec.finalByte ∧
      renderHelper pieces args = Gen.csi ++ joinSep [';'] (args.map Py.intStr) ++ [fb] ∧
      tokenize (renderHelper pieces args) =
        { text := [], seqs := [(0, [⟨joinSep [';'] (args.map Py.intStr), [fb]⟩])] } := by
  obtain ⟨⟨n', fb⟩, hp, hname, hterm, hshape⟩ := helperTable_shape _ hmem
  simp only at hname hterm hshape
  subst hname
  refine ⟨fb, hp, ?_⟩
  rcases hshape with ⟨h1, h2⟩ | ⟨h1, h2⟩
  · subst h1
    simp only [Option.some.injEq] at h2
    subst h2
    match args, hargs with
    | [a], _ =>
      have hr : renderHelper [.csi, .arg 0, .lit [fb]] [a] = Gen.csi ++ Py.intStr a ++ [fb] := by
        simp [renderHelper]
      rw [hr]
      refine ⟨by simp [joinSep_one], ?_⟩
      simpa [joinSep_one] using
        tokenize_single true none (Py.intStr a) fb (intStr_not_term a) hterm (by simp [acceptSeq])
  · subst h1
    simp only [Option.some.injEq] at h2
    subst h2
    match args, hargs with
    | [a, b], _ =>
      have hr : renderHelper [.csi, .arg 0, .lit [';'], .arg 1, .lit [fb]] [a, b] =
          Gen.csi ++ (Py.intStr a ++ [';'] ++ Py.intStr b) ++ [fb] := by
        simp [renderHelper]
      rw [hr]
      refine ⟨by simp [joinSep_two], ?_⟩
      have hps : ∀ ch ∈ Py.intStr a ++ [';'] ++ Py.intStr b, isTerm ch = false := by
        intro ch hch
        simp only [List.mem_append, List.mem_singleton] at hch
        rcases hch with (hch | hch) | hch
        · exact intStr_not_term a ch hch
        · rw [hch]; exact semicolon_not_term
        · exact intStr_not_term b ch hch
      simpa [joinSep_two] using
        tokenize_single true none _ fb hps hterm (by simp [acceptSeq])


/-- T5 instantiated: `cursor_position_str(3, -4)` is `ESC [ 3 ; - 4 H` -/
example : ("cursor_position_str", 2,
    some [Gen.HelperPiece.csi, .arg 0, .lit [';'], .arg 1, .lit ['H']]) ∈ Gen.helperTable := by decide

example : renderHelper [.csi, .arg 0, .lit [';'], .arg 1, .lit ['H']] [3, -4] = "\x1b[3;-4H".toList := by
  decide

example : tokenize (renderHelper [.csi, .arg 0, .lit ['A']] [12]) =
    { text := [], seqs := [(0, [⟨"12".toList, "A".toList⟩])] } := by decide


#print axioms helperTable_shape
#print axioms helperTable_complete
#print axioms helper_one_sequence
