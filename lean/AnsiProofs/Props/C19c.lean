import AnsiProofs.Props.C19
import AnsiModel.Generated.Methods.ParsePrims
import AnsiModel.Generated.Methods.Tokenize
import AnsiModel.Generated.Methods.FormattedStr

/-
  Property C19, part c — the *generated* (statement-by-statement translated, `harness/pyparse.py`)
  `ParsedAnsiControlSequenceString.__init__` (the tokenizer) and `.formatted_str` of ansi_parsing.py compute
  exactly what the hand-written model says (`tokenize` = `tokLoop … .text s {}`, `Parsed.formatted` of
  `AnsiModel/Parse.lean`): the same unformatted text, the same sequences in the same order under the same
  positions, for every input string, both values of `allow_empty_terminator` and every
  `acceptable_terminators` (absent or any string).  Nothing raises: `s[i]` (IndexError), `ord(s[i])`
  (TypeError), `self.sequences[idx].append(…)` (KeyError), a negative key (outside the model).

  The object is the model's `Parsed` itself (`_s` = `text`, `sequences` = `seqs`: a dict kept in insertion
  order, `PyParse.seqsHas/seqsAppend/seqsSet/seqsItems`).  The two nested `while` loops of the source are
  `PyParse.whileM fuel_ <test> <round> <state>`; `fuel_` bounds the number of rounds (running out is
  `Exc.outside`).  `tokenize_is_code` holds for every `fuel_ ≥ len(s)`: that the scan ends within `len(s)`
  rounds is proved, not assumed (`tokenize_needs_fuel`: with less it does run out).

  How the index-driven scan meets the model's mode machine (`tokLoop`, structural on the rest of the input):
  * `C19c.L`, nothing generated mentioned:
    - `tokLoop_params`: in parameter mode the model takes a `takeWhile` of non-terminators, then the
      terminator (or the end); `tokRound allow acc rest p`: one round of the outer loop on the rest of the
      input — how many characters it takes and the object afterwards; `tokLoop_round`: the model is
      `tokRound`, then itself on what is left;
    - `Inv p` (keys strictly ascending, none beyond the text): under it `idx in self.sequences` with
      `idx = len(self._s)` means "the last key is idx" — `append_present`, `set_absent` against the model's
      `record` (which looks at the last entry only), `inv_record`, `inv_push`;
    - `accept_*`: the acceptance condition with `in` as the substring test of `str`, on a terminator of at
      most one character, is `acceptSeq`;
    - `ScanSpec`/`scan_loop` (inner `while`, state `(i, current_seq)`), `RoundSpec`/`outer_loop` (outer
      `while`, state `(i, self)`): tests and rounds given as arbitrary functions meeting a spec stated on
      `s = pre ++ rest`, `i = len(pre)`;
    - `FmtSpec`/`fold_fmt`, `ValSpec`/`fold_vals`, `slice_nat`: the two `for` loops of `formatted_str`.
  * `C19c`: the theorems over `Gen.tokenizeInit`, `Gen.formattedStr`.
-/

-- some simp arguments are there for other shapes the source may take
set_option linter.unusedSimpArgs false

namespace C19c
namespace L

/-! ### primitives -/

theorem bindOk {α β : Type} (a : α) (f : α → Except Exc β) : (Except.ok a : Except Exc α).bind f = f a := rfl

theorem getIdx_mid {α : Type} (A : List α) (c : α) (B : List α) :
    Py.getIdx (A ++ c :: B) (A.length : Int) = .ok c := by
  unfold Py.getIdx
  have h1 : ¬ ((A.length : Int) < 0) := by omega
  simp [h1]

/-- `s[i:i+k]` at the position under the cursor -/
theorem slice_mid {α : Type} (A B : List α) (k : Nat) :
    Py.listSlice (A ++ B) (some (A.length : Int)) (some ((A.length : Int) + (k : Int))) = B.take k := by
  unfold Py.listSlice Py.listIdx
  have h1 : ¬ ((A.length : Int) < 0) := by omega
  have h2 : ¬ ((A.length : Int) + (k : Int) < 0) := by omega
  have h3 : ((A.length : Int) + (k : Int)).toNat = A.length + k := by omega
  simp only [h1, h2, if_false, Int.toNat_natCast, h3, List.length_append]
  rw [Nat.min_eq_left (by omega)]
  rw [List.take_append, List.drop_append]
  simp only [Nat.sub_self, List.drop_zero, Nat.add_sub_cancel_left, Nat.add_min_add_left]
  have e1 : List.take (A.length + min k B.length) A = A := List.take_of_length_le (by omega)
  rw [e1, List.drop_length, List.nil_append]
  rcases Nat.le_total k B.length with h | h
  · rw [Nat.min_eq_left h]; simp
  · rw [Nat.min_eq_right h, List.take_of_length_le (Nat.le_refl _), List.take_of_length_le h]; simp

theorem ordStr_one (c : Char) : PyParse.ordStr [c] = .ok (c.toNat : Int) := rfl

/-! ### `while` -/

theorem while_done {σ : Type} {cond : σ → Except Exc Bool} {body : σ → Except Exc σ} {st : σ}
    (h : cond st = .ok false) (fuel : Nat) : PyParse.whileM fuel cond body st = .ok st := by
  cases fuel <;> simp [PyParse.whileM, h, bindOk]

theorem while_step {σ : Type} {cond : σ → Except Exc Bool} {body : σ → Except Exc σ} {st st' : σ}
    (hc : cond st = .ok true) (hb : body st = .ok st') (fuel : Nat) :
    PyParse.whileM (fuel + 1) cond body st = PyParse.whileM fuel cond body st' := by
  simp [PyParse.whileM, hc, hb, bindOk]

/-! ### the model's mode machine, one token at a time -/

def isParam (c : Char) : Bool := !isTerm c

/-- what the tokenizer does with a candidate sequence: recorded, or put back into the text -/
def finish (allow : Bool) (acc : Option Str) (ps term : Str) (p : Parsed) : Parsed :=
  if acceptSeq allow acc term then p.record ⟨ps, term⟩ else p.push (Gen.csi ++ ps ++ term)

/-- the model in parameter mode: the parameter characters are a `takeWhile`, the terminator what follows -/
theorem tokLoop_params (allow : Bool) (acc : Option Str) :
    ∀ (r ps : Str) (o : Parsed),
      tokLoop allow acc (.params ps) r o =
        match r.dropWhile isParam with
        | [] => finish allow acc (ps ++ r.takeWhile isParam) [] o
        | c :: r' => tokLoop allow acc .text r' (finish allow acc (ps ++ r.takeWhile isParam) [c] o)
  | [], ps, o => by
    rw [tokLoop]
    simp [finish]
  | c :: r, ps, o => by
    rw [tokLoop]
    by_cases hc : isTerm c = true
    · have hp : isParam c = false := by simp [isParam, hc]
      simp only [hc, ↓reduceIte, List.dropWhile_cons, hp, List.takeWhile_cons, Bool.false_eq_true, List.append_nil, finish]
      split <;> simp
    · have hp : isParam c = true := by simp [isParam, hc]
      simp only [hc, Bool.false_eq_true, ↓reduceIte, List.dropWhile_cons, hp, List.takeWhile_cons]
      rw [tokLoop_params allow acc r (ps ++ [c]) o]
      simp

/-- one round of the scan on the remaining input `rest` (not empty): how many characters it takes, and the
    object afterwards -/
def tokRound (allow : Bool) (acc : Option Str) (rest : Str) (p : Parsed) : Nat × Parsed :=
  if rest.take 2 = Gen.csi then
    match (rest.drop 2).dropWhile isParam with
    | [] => (2 + ((rest.drop 2).takeWhile isParam).length, finish allow acc ((rest.drop 2).takeWhile isParam) [] p)
    | c :: _ => (2 + ((rest.drop 2).takeWhile isParam).length + 1, finish allow acc ((rest.drop 2).takeWhile isParam) [c] p)
  else (1, p.push (rest.take 1))

theorem takeWhile_dropWhile_length {α : Type} (q : α → Bool) (l : List α) :
    (l.takeWhile q).length + (l.dropWhile q).length = l.length := by
  rw [← List.length_append, List.takeWhile_append_dropWhile]

theorem tokRound_pos (allow : Bool) (acc : Option Str) (rest : Str) (p : Parsed) :
    1 ≤ (tokRound allow acc rest p).1 := by
  unfold tokRound
  split
  · split <;> simp <;> omega
  · simp

theorem tokRound_le (allow : Bool) (acc : Option Str) (rest : Str) (p : Parsed) (h : rest ≠ []) :
    (tokRound allow acc rest p).1 ≤ rest.length := by
  unfold tokRound
  split
  · rename_i hcsi
    have h2 : 2 ≤ rest.length := by
      have := congrArg List.length hcsi
      rw [csi_eq] at this
      simp at this
      omega
    have hl := takeWhile_dropWhile_length isParam (rest.drop 2)
    simp only [List.length_drop] at hl
    split
    · rename_i hd; rw [hd] at hl; simp at hl ⊢; omega
    · rename_i c r hd; rw [hd] at hl; simp at hl ⊢; omega
  · cases rest with
    | nil => exact absurd rfl h
    | cons c r => simp

/-- THE MODEL, ROUND BY ROUND: on a non-empty rest, `tokLoop` in text mode is one `tokRound`, then `tokLoop` again -/
theorem tokLoop_round (allow : Bool) (acc : Option Str) (rest : Str) (p : Parsed) (h : rest ≠ []) :
    tokLoop allow acc .text rest p =
      tokLoop allow acc .text (rest.drop (tokRound allow acc rest p).1) (tokRound allow acc rest p).2 := by
  unfold tokRound
  by_cases hcsi : rest.take 2 = Gen.csi
  · rw [if_pos hcsi]
    rw [csi_eq] at hcsi
    obtain ⟨r, rfl⟩ : ∃ r, rest = '\x1b' :: '[' :: r := by
      match rest, hcsi with
      | a :: b :: r, hcsi =>
        simp only [List.take_succ_cons, List.take_zero, List.cons.injEq, and_true] at hcsi
        exact ⟨r, by rw [hcsi.1, hcsi.2]⟩
    rw [tokLoop, tokLoop_params]
    simp only [List.drop_succ_cons, List.drop_zero, List.nil_append]
    have hr := List.takeWhile_append_dropWhile (p := isParam) (l := r)
    generalize r.takeWhile isParam = tw at hr ⊢
    cases hd : r.dropWhile isParam with
    | nil =>
      rw [hd, List.append_nil] at hr
      subst hr
      simp only []
      have : List.drop (2 + tw.length) ('\x1b' :: '[' :: tw) = [] := by
        apply List.drop_of_length_le; simp; omega
      rw [this, tokLoop]
    | cons c r' =>
      rw [hd] at hr
      subst hr
      simp only []
      have : List.drop (2 + tw.length + 1) ('\x1b' :: '[' :: (tw ++ c :: r')) = r' := by
        have e : 2 + tw.length + 1 = (tw.length + 1) + 1 + 1 := by omega
        rw [e, List.drop_succ_cons, List.drop_succ_cons]
        have e2 : tw ++ c :: r' = (tw ++ [c]) ++ r' := by simp
        rw [e2, List.drop_left' (by simp)]
      rw [this]
  · rw [if_neg hcsi]
    rw [csi_eq] at hcsi
    cases rest with
    | nil => exact absurd rfl h
    | cons c r =>
      simp only [List.drop_succ_cons, List.drop_zero, List.take_succ_cons, List.take_zero]
      rw [tokLoop]
      intro rest' heq hr
      apply hcsi
      rw [heq, hr]
      rfl

/-! ### the acceptance test -/

theorem findFrom_nil_sub : ∀ (s : Str) (pos : Nat), (Py.findFrom s [] pos 0).isSome = true
  | [], pos => by simp [Py.findFrom]
  | c :: s, pos => by simp [Py.findFrom, Py.startsWith]

theorem findFrom_one (c : Char) : ∀ (s : Str) (pos : Nat), (Py.findFrom s [c] pos 0).isSome = s.contains c
  | [], pos => by simp [Py.findFrom]
  | d :: s, pos => by
    unfold Py.findFrom
    by_cases h : d = c
    · subst h; simp [Py.startsWith]
    · have h' : (d == c) = false := by simpa using h
      have h'' : ¬ (c = d) := fun e => h e.symm
      simp only [Nat.zero_le, true_and, Py.startsWith, h', Bool.false_and, Bool.false_eq_true, ↓reduceIte]
      rw [findFrom_one c s (pos + 1)]
      simp [h'']

theorem strIn_nil (s : Str) : PyParse.strIn [] s = true := by
  unfold PyParse.strIn Py.find; exact findFrom_nil_sub s 0

theorem strIn_one (c : Char) (s : Str) : PyParse.strIn [c] s = s.contains c := by
  unfold PyParse.strIn Py.find; exact findFrom_one c s 0

/-- `(terminator or allow_empty_terminator) and (acceptable_terminators is None or terminator in
    acceptable_terminators)`, with `in` the substring test of `str`, is the model's `acceptSeq` on a
    terminator of at most one character: the four cases -/
theorem accept_none_nil (allow : Bool) : acceptSeq allow none [] = allow := by simp [acceptSeq]
theorem accept_none_one (allow : Bool) (c : Char) : acceptSeq allow none [c] = true := by simp [acceptSeq]
theorem accept_some_nil (allow : Bool) (a : Str) : acceptSeq allow (some a) [] = (allow && PyParse.strIn [] a) := by
  simp [acceptSeq, strIn_nil]
theorem accept_some_one (allow : Bool) (a : Str) (c : Char) : acceptSeq allow (some a) [c] = PyParse.strIn [c] a := by
  simp [acceptSeq, strIn_one]

/-! ### the dictionary `sequences` -/

/-- keys strictly ascending, none beyond the end of the text: what makes "`idx in self.sequences`" the
    same as "the last key is `idx`" -/
def Inv (p : Parsed) : Prop := p.seqs.Pairwise (fun a b => a.1 < b.1) ∧ Parsed.KeysLe p

theorem inv_empty : Inv {} := ⟨List.Pairwise.nil, Parsed.keysLe_empty⟩

theorem inv_push {p : Parsed} (h : Inv p) (s : Str) : Inv (p.push s) := ⟨h.1, Parsed.keysLe_push h.2 s⟩

theorem seqsHas_nat (d : List (Nat × List CtlSeq)) (k : Nat) :
    PyParse.seqsHas d (k : Int) = d.any (fun kv => kv.1 == k) := by
  simp [PyParse.seqsHas]

/-- with ascending keys ending in `(k, l)`, no earlier key is `k` -/
theorem init_ne {init : List (Nat × List CtlSeq)} {k : Nat} {l : List CtlSeq}
    (h : (init ++ [(k, l)]).Pairwise (fun a b => a.1 < b.1)) : ∀ kv ∈ init, kv.1 < k := by
  intro kv hkv
  exact (List.pairwise_append.mp h).2.2 kv hkv (k, l) (by simp)

theorem inv_record {p : Parsed} (h : Inv p) (c : CtlSeq) : Inv (p.record c) := by
  refine ⟨?_, Parsed.keysLe_record h.2 c⟩
  obtain ⟨hs, hk⟩ := h
  rcases Parsed.record_cases p c with ⟨init, l, hseq, hr⟩ | ⟨hcase, hr⟩
  · rw [hr]; simp only
    rw [hseq] at hs
    rw [List.pairwise_append] at hs ⊢
    exact ⟨hs.1, by simp, fun a ha b hb => by
      have := hs.2.2 a ha (p.text.length, l) (by simp)
      simp at hb; rw [hb]; exact this⟩
  · rw [hr]; simp only
    rw [List.pairwise_append]
    refine ⟨hs, by simp, ?_⟩
    intro a ha b hb
    simp at hb; rw [hb]; simp only
    rcases hcase with hnil | ⟨init, k, l, hseq, hne⟩
    · rw [hnil] at ha; cases ha
    · have hkl : k ≤ p.text.length := hk (k, l) (by rw [hseq]; simp)
      rw [hseq] at ha hs
      simp only [List.mem_append, List.mem_singleton] at ha
      rcases ha with ha | ha
      · have := init_ne hs a ha; omega
      · rw [ha]; simp only; omega

/-- `idx in self.sequences` and `self.sequences[idx].append(x)`, at `idx = len(self._s)` -/
theorem append_present {p : Parsed} (h : Inv p) (c : CtlSeq)
    (hh : PyParse.seqsHas p.seqs (p.text.length : Int) = true) :
    PyParse.seqsAppend p.seqs (p.text.length : Int) c = .ok (p.record c).seqs := by
  unfold PyParse.seqsAppend
  rw [if_pos hh]
  rw [seqsHas_nat] at hh
  rcases Parsed.record_cases p c with ⟨init, l, hseq, hr⟩ | ⟨hcase, hr⟩
  · rw [hr, hseq]
    have hi := init_ne (hseq ▸ h.1)
    simp only [Int.toNat_natCast, List.map_append, List.map_cons, List.map_nil, beq_self_eq_true, ↓reduceIte]
    congr 2
    have hid : ∀ kv ∈ init, (if (kv.1 == p.text.length) = true then (kv.1, kv.2 ++ [c]) else kv) = id kv := by
      intro kv hkv
      have := hi kv hkv
      have hne : (kv.1 == p.text.length) = false := by simp; omega
      simp [hne]
    rw [List.map_congr_left hid, List.map_id]
  · exfalso
    rcases hcase with hnil | ⟨init, k, l, hseq, hne⟩
    · rw [hnil] at hh; simp at hh
    · have hkl : k ≤ p.text.length := h.2 (k, l) (by rw [hseq]; simp)
      have hi := init_ne (hseq ▸ h.1)
      rw [hseq] at hh
      simp only [List.any_append, List.any_cons, List.any_nil, Bool.or_false, Bool.or_eq_true, List.any_eq_true, beq_iff_eq] at hh
      rcases hh with ⟨kv, hkv, he⟩ | he
      · have := hi kv hkv; omega
      · exact hne he

/-- `idx not in self.sequences` and `self.sequences[idx] = [x]`, at `idx = len(self._s)` -/
theorem set_absent {p : Parsed} (_h : Inv p) (c : CtlSeq)
    (hh : PyParse.seqsHas p.seqs (p.text.length : Int) = false) :
    PyParse.seqsSet p.seqs (p.text.length : Int) [c] = .ok (p.record c).seqs := by
  unfold PyParse.seqsSet
  have h0 : ¬ ((p.text.length : Int) < 0) := by omega
  rw [if_neg h0, hh]
  simp only [Bool.false_eq_true, ↓reduceIte, Int.toNat_natCast]
  rw [seqsHas_nat] at hh
  rcases Parsed.record_cases p c with ⟨init, l, hseq, hr⟩ | ⟨hcase, hr⟩
  · exfalso
    rw [hseq] at hh
    simp at hh
  · rw [hr]

/-- `record` changes the dictionary only -/
theorem record_with (p : Parsed) (c : CtlSeq) : ({ p with seqs := (p.record c).seqs } : Parsed) = p.record c := by
  rcases Parsed.record_cases p c with ⟨init, l, hseq, hr⟩ | ⟨hcase, hr⟩ <;> rw [hr]

theorem push_with (p : Parsed) (s : Str) : ({ p with text := p.text ++ s } : Parsed) = p.push s := rfl

/-! ### the inner `while`: the parameter characters -/

/-- what the test and a round of the inner loop have to do, whatever they look like; the state is
    `(i, current_seq)`, the cursor `i` given by what has been read (`pre`) -/
def ScanSpec (s : Str) (cond : Int × Str → Except Exc Bool) (body : Int × Str → Except Exc (Int × Str)) : Prop :=
  ∀ (pre rest cs : Str), s = pre ++ rest →
    cond ((pre.length : Int), cs) = .ok (match rest with | [] => false | c :: _ => isParam c) ∧
    ∀ c rest', rest = c :: rest' → body ((pre.length : Int), cs) = .ok (((pre ++ [c]).length : Int), cs ++ [c])

theorem scan_loop {s : Str} {cond : Int × Str → Except Exc Bool} {body : Int × Str → Except Exc (Int × Str)}
    (h : ScanSpec s cond body) :
    ∀ (rest pre cs : Str) (fuel : Nat), s = pre ++ rest → rest.length ≤ fuel →
      PyParse.whileM fuel cond body ((pre.length : Int), cs) =
        .ok (((pre ++ rest.takeWhile isParam).length : Int), cs ++ rest.takeWhile isParam)
  | [], pre, cs, fuel, hs, _ => by
    rw [while_done ((h pre [] cs hs).1)]
    simp
  | c :: rest', pre, cs, fuel, hs, hf => by
    obtain ⟨hc, hb⟩ := h pre (c :: rest') cs hs
    simp only [] at hc
    cases hp : isParam c with
    | false =>
      rw [hp] at hc
      rw [while_done hc]
      simp [hp]
    | true =>
      rw [hp] at hc
      obtain ⟨f, rfl⟩ : ∃ f, fuel = f + 1 := ⟨fuel - 1, by simp at hf; omega⟩
      rw [while_step hc (hb c rest' rfl)]
      rw [scan_loop h rest' (pre ++ [c]) (cs ++ [c]) f (by simp [hs]) (by simp at hf; omega)]
      simp [hp]

/-! ### the outer `while` -/

theorem inv_round {allow : Bool} {acc : Option Str} {rest : Str} {p : Parsed} (h : Inv p) :
    Inv (tokRound allow acc rest p).2 := by
  unfold tokRound finish
  split
  · split <;> (simp only []; split) <;> first | exact inv_record h _ | exact inv_push h _
  · exact inv_push h _

/-- what the test and a round of the outer loop have to do, whatever they look like; the state is `(i, self)` -/
def RoundSpec (s : Str) (allow : Bool) (acc : Option Str)
    (cond : Int × Parsed → Except Exc Bool) (body : Int × Parsed → Except Exc (Int × Parsed)) : Prop :=
  ∀ (pre rest : Str) (p : Parsed), s = pre ++ rest → Inv p →
    cond ((pre.length : Int), p) = .ok (!rest.isEmpty) ∧
    (rest ≠ [] → body ((pre.length : Int), p) =
      .ok (((pre.length + (tokRound allow acc rest p).1 : Nat) : Int), (tokRound allow acc rest p).2))

/-- THE SCAN: tests and rounds that meet `RoundSpec` compute the model's `tokLoop`, given fuel for one round
    per character -/
theorem outer_loop {s : Str} {allow : Bool} {acc : Option Str}
    {cond : Int × Parsed → Except Exc Bool} {body : Int × Parsed → Except Exc (Int × Parsed)}
    (h : RoundSpec s allow acc cond body) :
    ∀ (n : Nat) (rest pre : Str) (p : Parsed) (fuel : Nat), rest.length ≤ n → s = pre ++ rest → Inv p →
      rest.length ≤ fuel →
      PyParse.whileM fuel cond body ((pre.length : Int), p) = .ok ((s.length : Int), tokLoop allow acc .text rest p) := by
  intro n
  induction n with
  | zero =>
    intro rest pre p fuel hn hs hi _
    have hr : rest = [] := List.eq_nil_of_length_eq_zero (by omega)
    subst hr
    rw [while_done ((h pre [] p hs hi).1), tokLoop]
    simp [hs]
  | succ n ih =>
    intro rest pre p fuel hn hs hi hf
    by_cases hr : rest = []
    · subst hr
      rw [while_done ((h pre [] p hs hi).1), tokLoop]
      simp [hs]
    · obtain ⟨hc, hb⟩ := h pre rest p hs hi
      have hne : (!rest.isEmpty) = true := by cases rest with | nil => exact absurd rfl hr | cons _ _ => rfl
      rw [hne] at hc
      have hlen : 1 ≤ rest.length := by cases rest with | nil => exact absurd rfl hr | cons _ _ => simp
      obtain ⟨f, rfl⟩ : ∃ f, fuel = f + 1 := ⟨fuel - 1, by omega⟩
      rw [while_step hc (hb hr)]
      have hpos := tokRound_pos allow acc rest p
      have hle := tokRound_le allow acc rest p hr
      have hidx : pre.length + (tokRound allow acc rest p).1 = (pre ++ rest.take (tokRound allow acc rest p).1).length := by
        simp; omega
      rw [hidx]
      rw [ih (rest.drop (tokRound allow acc rest p).1) (pre ++ rest.take (tokRound allow acc rest p).1)
        (tokRound allow acc rest p).2 f (by simp; omega) (by simp [hs]) (inv_round hi) (by simp; omega)]
      rw [← tokLoop_round allow acc rest p hr]

/-! ### the same facts with the cursor given as any `int` known to be the length of what was read -/

theorem getIdx_at {α : Type} {l : List α} {i : Int} (A : List α) (c : α) (B : List α)
    (hl : l = A ++ c :: B) (hi : i = (A.length : Int)) : Py.getIdx l i = .ok c := by
  rw [hl, hi]; exact getIdx_mid A c B

theorem slice_at {α : Type} {l : List α} {i j : Int} (A B : List α) (k : Nat)
    (hl : l = A ++ B) (hi : i = (A.length : Int)) (hj : j = (A.length : Int) + (k : Int)) :
    Py.listSlice l (some i) (some j) = B.take k := by
  rw [hl, hi, hj]; exact slice_mid A B k

theorem scan_loop_at {s : Str} {cond : Int × Str → Except Exc Bool} {body : Int × Str → Except Exc (Int × Str)}
    (h : ScanSpec s cond body) (rest pre cs : Str) (fuel : Nat) (i : Int)
    (hs : s = pre ++ rest) (hf : rest.length ≤ fuel) (hi : i = (pre.length : Int)) :
    PyParse.whileM fuel cond body (i, cs) =
      .ok (((pre ++ rest.takeWhile isParam).length : Int), cs ++ rest.takeWhile isParam) := by
  rw [hi]; exact scan_loop h rest pre cs fuel hs hf

theorem isTerm_iff (c : Char) : isTerm c = true ↔ (Gen.termLo ≤ c.toNat ∧ c.toNat ≤ Gen.termHi) := by
  simp [isTerm]

/-! ### `formatted_str` -/

theorem slice_nat {α : Type} (t : List α) (a b : Nat) :
    Py.listSlice t (some (a : Int)) (some (b : Int)) = (t.take b).drop a := by
  unfold Py.listSlice Py.listIdx
  have h1 : ¬ ((a : Int) < 0) := by omega
  have h2 : ¬ ((b : Int) < 0) := by omega
  simp only [h1, h2, if_false, Int.toNat_natCast]
  rcases Nat.le_total b t.length with hb | hb
  · rw [Nat.min_eq_left hb]
    rcases Nat.le_total a t.length with ha | ha
    · rw [Nat.min_eq_left ha]
    · rw [Nat.min_eq_right ha, List.drop_of_length_le (by simp; omega), List.drop_of_length_le (by simp; omega)]
  · rw [Nat.min_eq_right hb, List.take_of_length_le (Nat.le_refl _), List.take_of_length_le hb]
    rcases Nat.le_total a t.length with ha | ha
    · rw [Nat.min_eq_left ha]
    · rw [Nat.min_eq_right ha, List.drop_length, List.drop_of_length_le ha]

theorem slice_from {α : Type} (t : List α) (a : Nat) : Py.listSlice t (some (a : Int)) none = t.drop a := by
  unfold Py.listSlice Py.listIdx
  have h1 : ¬ ((a : Int) < 0) := by omega
  simp only [h1, if_false, Int.toNat_natCast, List.take_length]
  rcases Nat.le_total a t.length with ha | ha
  · rw [Nat.min_eq_left ha]
  · rw [Nat.min_eq_right ha, List.drop_length, List.drop_of_length_le ha]

/-- one recorded sequence as text -/
def render (c : CtlSeq) : Str := Gen.csi ++ c.sequence ++ c.terminator

def ValSpec (step : Str → CtlSeq → Except Exc Str) : Prop := ∀ o v, step o v = .ok (o ++ render v)

theorem fold_vals {step : Str → CtlSeq → Except Exc Str} (h : ValSpec step) :
    ∀ (vs : List CtlSeq) (o : Str), List.foldlM step o vs = .ok (o ++ (vs.map render).flatten)
  | [], o => by simp; rfl
  | v :: vs, o => by
    rw [List.foldlM_cons, h]
    show List.foldlM step (o ++ render v) vs = _
    rw [fold_vals h vs]; simp

/-- the model's round of `formatted_str` -/
def fmtRound (text : Str) (acc : Str × Nat) (kv : Nat × List CtlSeq) : Str × Nat :=
  (acc.1 ++ Parsed.formatted.pySliceL text acc.2 kv.1 ++ (kv.2.map render).flatten, kv.1)

theorem formatted_eq (p : Parsed) :
    p.formatted = (p.seqs.foldl (fmtRound p.text) ([], 0)).1 ++ p.text.drop (p.seqs.foldl (fmtRound p.text) ([], 0)).2 := rfl

/-- what a round of the loop over `self.sequences.items()` has to do; the state is `(last_idx, out_str)` -/
def FmtSpec (text : Str) (step : Int × Str → Int × List CtlSeq → Except Exc (Int × Str)) : Prop :=
  ∀ (last : Nat) (o : Str) (k : Nat) (vs : List CtlSeq),
    step ((last : Int), o) ((k : Int), vs) = .ok ((k : Int), (fmtRound text (o, last) (k, vs)).1)

theorem fold_fmt {text : Str} {step : Int × Str → Int × List CtlSeq → Except Exc (Int × Str)} (h : FmtSpec text step) :
    ∀ (seqs : List (Nat × List CtlSeq)) (last : Nat) (o : Str),
      List.foldlM step ((last : Int), o) (PyParse.seqsItems seqs) =
        .ok ((((seqs.foldl (fmtRound text) (o, last)).2 : Nat) : Int), (seqs.foldl (fmtRound text) (o, last)).1)
  | [], last, o => rfl
  | (k, vs) :: seqs, last, o => by
    unfold PyParse.seqsItems
    rw [List.map_cons, List.foldlM_cons, h]
    show List.foldlM step ((k : Int), _) (PyParse.seqsItems seqs) = _
    rw [fold_fmt h seqs k]
    rfl

end L
open L

theorem translated : (Gen.tokenizeInitOk && Gen.formattedStrOk) = true := by decide

/-- THE GENERATED TOKENIZER IS THE MODEL'S `tokenize`: with fuel for one round per character the two `while`
    loops end, nothing raises, and the object `__init__` leaves is the model's -/
theorem tokenize_is_code (s : Str) (allow : Bool) (acc : Option Str) (fuel : Nat) (hf : s.length ≤ fuel) :
    Gen.tokenizeInit fuel s allow acc = .ok (tokenize s allow acc) := by
  unfold Gen.tokenizeInit tokenize
  simp only []
  have hcl : Gen.csi.length = 2 := by decide
  rw [show ((0 : Int), ({ text := [], seqs := [] } : Parsed)) = (((([] : Str).length : Nat) : Int), ({} : Parsed)) from rfl]
  rw [outer_loop (allow := allow) (acc := acc) ?spec s.length s [] {} fuel (Nat.le_refl _) rfl inv_empty hf]
  case spec =>
    intro pre rest p hs hi
    subst hs
    constructor
    · cases rest <;> simp <;> omega
    · intro hr
      simp only []
      rw [slice_mid pre rest Gen.csi.length, hcl]
      unfold tokRound
      by_cases hcsi : rest.take 2 = Gen.csi
      · obtain ⟨r, rfl⟩ : ∃ r, rest = Gen.csi ++ r := ⟨rest.drop 2, by rw [← hcsi, List.take_append_drop]⟩
        have htake : (Gen.csi ++ r).take 2 = Gen.csi := by rw [csi_eq]; rfl
        have hdrop : (Gen.csi ++ r).drop 2 = r := by rw [csi_eq]; rfl
        simp only [htake, hdrop, beq_self_eq_true, ↓reduceIte]
        rw [scan_loop_at (s := pre ++ (Gen.csi ++ r)) ?sspec r (pre ++ Gen.csi) [] fuel _ ?hs ?hfuel ?hi]
        case hs => simp
        case hfuel => simp at hf; omega
        case hi => simp [hcl]
        case sspec =>
          intro pre' rest' cs hs'
          rw [hs']
          constructor
          · cases rest' with
            | nil => simp
            | cons c r'' =>
              have hlt : (((pre'.length : Nat) : Int) < (((pre' ++ c :: r'').length : Nat) : Int)) := by simp; omega
              simp only [hlt, decide_true, ↓reduceIte, getIdx_mid, ordStr_one, bindOk]
              have hT := isTerm_iff c
              unfold isParam
              by_cases h : isTerm c = true
              · have h' := hT.mp h
                simp only [h, Bool.not_true]
                repeat' split
                all_goals first | rfl | (simp at *; omega)
              · have h' : ¬ (Gen.termLo ≤ c.toNat ∧ c.toNat ≤ Gen.termHi) := fun x => h (hT.mpr x)
                have h2 : isTerm c = false := by simpa using h
                simp only [h2, Bool.not_false]
                repeat' split
                all_goals first | rfl | (simp at *; omega)
          · intro c r'' hr''
            subst hr''
            simp only [getIdx_mid, bindOk]
            simp
        simp only [bindOk, List.nil_append]
        -- `idx in self.sequences`: by `Inv`, either way of recording is the model's `record`
        cases hh : PyParse.seqsHas p.seqs (p.text.length : Int)
        all_goals first
          | simp only [hh, set_absent hi _ hh, bindOk, record_with, Bool.false_eq_true, Bool.not_false, Bool.not_true, ↓reduceIte]
          | simp only [hh, append_present hi _ hh, bindOk, record_with, Bool.false_eq_true, Bool.not_false, Bool.not_true, ↓reduceIte]
        all_goals
          have hr2 := List.takeWhile_append_dropWhile (p := isParam) (l := r)
          generalize r.takeWhile isParam = tw at hr2 ⊢
          cases hd : r.dropWhile isParam with
          | nil =>
            rw [hd, List.append_nil] at hr2
            subst hr2
            -- the cursor is at the end of the input
            have hm : (((pre ++ (Gen.csi ++ tw)).length : Nat) : Int) = (((pre ++ Gen.csi ++ tw).length : Nat) : Int) := by simp
            have hn : ((pre.length + (2 + tw.length) : Nat) : Int) = (((pre ++ Gen.csi ++ tw).length : Nat) : Int) := by
              simp [hcl] <;> omega
            rw [hm, hn]
            generalize (((pre ++ Gen.csi ++ tw).length : Nat) : Int) = n
            unfold finish
            cases acc with
            | none => cases allow <;> simp [accept_none_nil, Parsed.push, bindOk]
            | some a => cases allow <;> simp [accept_some_nil, strIn_nil, Parsed.push, bindOk]
          | cons c r' =>
            rw [hd] at hr2
            subst hr2
            rw [getIdx_at (pre ++ Gen.csi ++ tw) c r' (by simp) rfl]
            -- the cursor is before the end of the input
            have hnm : (((pre ++ Gen.csi ++ tw).length : Nat) : Int) < (((pre ++ (Gen.csi ++ (tw ++ c :: r'))).length : Nat) : Int) := by
              simp; omega
            have hn : ((pre.length + (2 + tw.length + 1) : Nat) : Int) = (((pre ++ Gen.csi ++ tw).length : Nat) : Int) + 1 := by
              simp [hcl] <;> omega
            rw [hn]
            generalize (((pre ++ Gen.csi ++ tw).length : Nat) : Int) = n at hnm ⊢
            generalize (((pre ++ (Gen.csi ++ (tw ++ c :: r'))).length : Nat) : Int) = m at hnm ⊢
            have hnm' : ¬ (m ≤ n) := by omega
            unfold finish
            cases acc with
            | none => simp [accept_none_one, Parsed.push, bindOk, hnm, hnm']
            | some a => cases hs : PyParse.strIn [c] a <;> simp [accept_some_one, hs, Parsed.push, bindOk, hnm, hnm']
      · have hne : (rest.take 2 == Gen.csi) = false := by simpa using hcsi
        simp only [hne, hcsi, Bool.false_eq_true, ↓reduceIte]
        cases rest with
        | nil => exact absurd rfl hr
        | cons c r =>
          simp only [getIdx_mid, bindOk]
          simp [Parsed.push]
  rfl

/-- THE GENERATED `formatted_str` IS THE MODEL'S `Parsed.formatted`, on any object -/
theorem formatted_is_code (p : Parsed) : Gen.formattedStr p = .ok p.formatted := by
  unfold Gen.formattedStr
  simp only []
  rw [show ((0 : Int), ([] : Str)) = (((0 : Nat) : Int), ([] : Str)) from rfl, fold_fmt (text := p.text) ?spec]
  case spec =>
    intro last o k vs
    simp only [slice_nat]
    rw [fold_vals ?vspec]
    case vspec => intro o v; simp [render]
    simp [fmtRound, render, Parsed.formatted.pySliceL, bindOk]
  simp only [bindOk, slice_from, formatted_eq]

/-- `str(p)` / `repr(p)` / `p.formatted_str` of the object `__init__` leaves is the input (C19.tokenize_lossless
    read over the generated functions) -/
theorem formatted_of_tokenize (s : Str) (allow : Bool) (acc : Option Str) (fuel : Nat) (hf : s.length ≤ fuel) :
    (Gen.tokenizeInit fuel s allow acc).bind Gen.formattedStr = .ok s := by
  rw [tokenize_is_code s allow acc fuel hf, bindOk, formatted_is_code, tokenize_lossless]

theorem tokenize_never_raises (s : Str) (allow : Bool) (acc : Option Str) (fuel : Nat) (hf : s.length ≤ fuel) (err : Exc) :
    Gen.tokenizeInit fuel s allow acc ≠ .error err := by
  rw [tokenize_is_code s allow acc fuel hf]; intro e; cases e

theorem formatted_never_raises (p : Parsed) (err : Exc) : Gen.formattedStr p ≠ .error err := by
  rw [formatted_is_code]; intro e; cases e

/-- the hypothesis on the fuel is sharp: one round per character is needed -/
theorem tokenize_needs_fuel : Gen.tokenizeInit 3 "abcd".toList true none = .error .outside := by decide +kernel

/-! ## Concrete values -/

private def tok (s : String) (allow : Bool := true) (acc : Option String := none) : Except Exc Parsed :=
  Gen.tokenizeInit s.length s.toList allow (acc.map String.toList)
private def sq (a b : String) : CtlSeq := ⟨a.toList, b.toList⟩

example : tok "a\x1b[1mb" = .ok ⟨"ab".toList, [(1, [sq "1" "m"])]⟩ := by decide +kernel
example : tok "\x1b[2Jx" = .ok ⟨"x".toList, [(0, [sq "2" "J"])]⟩ := by decide +kernel
/-- an unterminated sequence at the end of the input: recorded with an empty terminator, or put back -/
example : tok "a\x1b[" = .ok ⟨"a".toList, [(1, [sq "" ""])]⟩ := by decide +kernel
example : tok "a\x1b[" false = .ok ⟨"a\x1b[".toList, []⟩ := by decide +kernel
example : tok "\x1b[1;3" = .ok ⟨[], [(0, [sq "1;3" ""])]⟩ := by decide +kernel
example : tok "\x1b[1;3" false = .ok ⟨"\x1b[1;3".toList, []⟩ := by decide +kernel
/-- adjacent sequences share a position -/
example : tok "x\x1b[1m\x1b[2my" = .ok ⟨"xy".toList, [(1, [sq "1" "m", sq "2" "m"])]⟩ := by decide +kernel
/-- no parameters, terminated: recorded whatever `allow_empty_terminator` says -/
example : tok "\x1b[mz" = .ok ⟨"z".toList, [(0, [sq "" "m"])]⟩ := by decide +kernel
example : tok "\x1b[mz" false = .ok ⟨"z".toList, [(0, [sq "" "m"])]⟩ := by decide +kernel
/-- a set of acceptable terminators: `J` is not in it, the sequence stays in the text; the empty terminator
    is "in" any string -/
example : tok "a\x1b[1mb\x1b[2Jc" true (some "m") = .ok ⟨"ab\x1b[2Jc".toList, [(1, [sq "1" "m"])]⟩ := by decide +kernel
example : tok "a\x1b[1mb" true (some "") = .ok ⟨"a\x1b[1mb".toList, []⟩ := by decide +kernel
example : tok "a\x1b[" true (some "m") = .ok ⟨"a".toList, [(1, [sq "" ""])]⟩ := by decide +kernel
/-- and back -/
example : Gen.formattedStr ⟨"xy".toList, [(1, [sq "1" "m", sq "2" "m"])]⟩ = .ok "x\x1b[1m\x1b[2my".toList := by decide +kernel
example : Gen.formattedStr ⟨"ab".toList, [(0, [sq "2" "J"]), (2, [sq "" ""])]⟩ = .ok "\x1b[2Jab\x1b[".toList := by decide +kernel

/-- the outcomes the theorems exclude are real ones of the primitives -/
example : PyParse.seqsAppend [] 0 (sq "1" "m") = .error .key := by decide
example : PyParse.seqsSet [] (-1) [] = .error .outside := by decide
example : PyParse.ordStr "ab".toList = .error (.py .typeError) := by decide
example : Py.getIdx "ab".toList 2 = .error (.py .indexError) := by decide

end C19c

#print axioms C19c.translated
#print axioms C19c.tokenize_is_code
#print axioms C19c.formatted_is_code
#print axioms C19c.formatted_of_tokenize
#print axioms C19c.tokenize_never_raises
#print axioms C19c.formatted_never_raises
#print axioms C19c.tokenize_needs_fuel
