import AnsiProofs.Lemmas.Tokenize
import AnsiModel.Generated.Methods.ParsePrims
import AnsiModel.Generated.Methods.Tokenize
import AnsiModel.Generated.Methods.FormattedStr

-- some simp arguments are there for other shapes the source may take
set_option linter.unusedSimpArgs false

namespace C19c
namespace L

/-! ### primitives -/

theorem bindOk {α β : Type} (a : α) (f : α → Except Exc β) : (Except.ok a : Except Exc α).bind f = f a := rfl

theorem getIdx_mid {α : Type} (A : List α) (c : α) (B : List α) :
    Py.getIdx (A ++ c :: B) (A.length : Int) = .ok c := by
  unfold Py.getIdx
  have h1 : ¬ ((A.length : Int) < 0) := by omega
  simp [h1]

/-- `s[i:i+k]` at the position under the cursor -/
theorem slice_mid {α : Type} (A B : List α) (k : Nat) :
    Py.listSlice (A ++ B) (some (A.length : Int)) (some ((A.length : Int) + (k : Int))) = B.take k := by
  unfold Py.listSlice Py.listIdx
  have h1 : ¬ ((A.length : Int) < 0) := by omega
  have h2 : ¬ ((A.length : Int) + (k : Int) < 0) := by omega
  have h3 : ((A.length : Int) + (k : Int)).toNat = A.length + k := by omega
  simp only [h1, h2, if_false, Int.toNat_natCast, h3, List.length_append]
  rw [Nat.min_eq_left (by omega)]
  rw [List.take_append, List.drop_append]
  simp [List.take_take]
  omega

theorem ordStr_one (c : Char) : PyParse.ordStr [c] = .ok (c.toNat : Int) := rfl

/-! ### `while` -/

theorem while_done {σ : Type} {cond : σ → Except Exc Bool} {body : σ → Except Exc σ} {st : σ}
    (h : cond st = .ok false) (fuel : Nat) : PyParse.whileM fuel cond body st = .ok st := by
  cases fuel <;> simp [PyParse.whileM, h, bindOk]

theorem while_step {σ : Type} {cond : σ → Except Exc Bool} {body : σ → Except Exc σ} {st st' : σ}
    (hc : cond st = .ok true) (hb : body st = .ok st') (fuel : Nat) :
    PyParse.whileM (fuel + 1) cond body st = PyParse.whileM fuel cond body st' := by
  simp [PyParse.whileM, hc, hb, bindOk]

end L
end C19c
