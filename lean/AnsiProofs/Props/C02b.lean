import AnsiProofs.Lemmas.ParseStyle
/-
  Property C02, STYLE half — "Constructing an AnsiString/AnsiStr from text containing SGR escape
  sequences yields … each character reports the effective style a conforming terminal would give
  it after the preceding sequences: known codes applied in order, extended-colour groups
  (38/48/58 followed by 5;n or 2;r;g;b) recognised wherever they occur in a sequence, clear codes
  and reset honoured, unknown codes ignored."   (The text half is `Props/C02.lean`.)

  Specification: the independent terminal of `AnsiSpec/Terminal.lean`.  `Term.run Term.default r`
  is the list of displayed characters, each paired with the state it is displayed in;
  `eff (act x i)` is the state a terminal reaches from its default state on the codes of the
  settings character `i` of `x` reports, in precedence order (`AnsiSpec/Styled.lean`);
  `den x` pairs every character of `x` with that state.

  Scope: `Term.wellFormed r` — every parameter of every SGR sequence of `r` is empty or a run of
  decimal digits (ASCII whitespace around it allowed).  Outside this scope "code" has no agreed
  meaning and the two sides do differ (`int('+1') = 1` in Python, not a number for a terminal):
  see `wellFormed_needed`.  Everything is proved for ALL such inputs, no length bound.

  Helper lemmas: `AnsiProofs/Lemmas/ParseStyle.lean` (namespace `ParseStyleL`).
-/

open Term Eff ParseTextL ParseTextL.C02Spec ParseStyleL

namespace C02b

/-- the running example: bold + indexed colour, then reset + underline, then "underline off;
    red" immediately followed by "default colour" (two sequences at one offset) -/
def ex : Str := "\x1b[1;38;5;214ma\x1b[0;4mb\x1b[24;31m\x1b[39mc".toList

/-- a second example: a colour replaced, bold replaced by faint (same group), font 11 replaced by
    the default font 10 (an *apply* for the library, a *clear* for the terminal), an incomplete
    group `38;5` at the end of a sequence, a direct colour followed by another code -/
def ex' : Str := "\x1b[1;31ma\x1b[32mb\x1b[2;10;11;10mc\x1b[38;5md\x1b[38;2;1;2;3;4me".toList

example : Term.wellFormed ex = true ∧ Term.wellFormed ex' = true := by decide

/-! ## 1 — model and terminal read the same numbers -/

/-- For a well-formed parameter string the items `parse_graphic_sequence` works on
    (`int(item.strip())`, an empty item is `0`) are the numbers the terminal reads. -/
theorem items_eq_params (p : Str) (hp : (Term.params p).all Option.isSome = true) :
    pgsItemsOfStr p = ((Term.params p).filterMap id).map (fun (c : Nat) => Code.int (c : Int)) ∧
    Term.params p = ((Term.params p).filterMap id).map some :=
  ParseStyleL.items_eq_params p hp

example : (Term.params " 1;;038 ;5; 7".toList).all Option.isSome = true ∧
    pgsItemsOfStr " 1;;038 ;5; 7".toList = [.int 1, .int 0, .int 38, .int 5, .int 7] ∧
    Term.params " 1;;038 ;5; 7".toList = [some 1, some 0, some 38, some 5, some 7] := by decide

/-- every SGR sequence of a well-formed input has a well-formed parameter string -/
theorem wellFormed_sgrs (r : Str) (h : Term.wellFormed r = true) :
    ∀ ks ∈ sgrs r, (Term.params ks.2).all Option.isSome = true :=
  ParseStyleL.wellFormed_sgrs r h

/-! ## 2 — one sequence: `parse_graphic_sequence` + `settings_to_dict` on top of ANY prior dict
    is what the terminal does in the state that dict stands for -/

theorem seq_effect (p : Str) (hp : (Term.params p).all Option.isSome = true) (old : PyDict) :
    alpha (settingsToDict ((pgsStr p false).map (fun t => (⟨0, t⟩ : Setting))) old) =
      Term.feed (alpha old) (Term.params p) :=
  pgsStr_effect p hp old

theorem seq_dictOK (p : Str) (hp : (Term.params p).all Option.isSome = true) (old : PyDict)
    (hd : DictOK old) :
    DictOK (settingsToDict ((pgsStr p false).map (fun t => (⟨0, t⟩ : Setting))) old) :=
  pgsStr_dictOK p hp old hd

-- a non-trivial prior dict (faint, indexed colour) and a sequence with a clear code, a complete
-- and an incomplete extended-colour group
example : (Term.params "22;48;2;1;2;3;38;5".toList).all Option.isSome = true := by decide
example : DictOK [(2, ⟨0, "2".toList⟩), (13, ⟨0, "38;5;1".toList⟩)] := by
  refine ⟨by decide, ?_⟩
  intro kv hkv
  simp only [List.mem_cons, List.not_mem_nil, or_false] at hkv
  rcases hkv with rfl | rfl <;> decide
example : settingsToDict ((pgsStr "22;48;2;1;2;3;38;5".toList false).map (fun t => (⟨0, t⟩ : Setting)))
      [(2, ⟨0, "2".toList⟩), (13, ⟨0, "38;5;1".toList⟩)] =
    [(13, ⟨0, "38;5;1".toList⟩), (14, ⟨0, "48;2;1;2;3".toList⟩)] := by decide

/-! ## 3 — order independence: a character reporting exactly the values of a dict (each once, in
    any precedence order) has the effective style the dict stands for -/

theorem eff_of_dict_values {A : List Setting} {d : PyDict} (hd : DictOK d)
    (hnodup : (texts A).Nodup) (hmem : ∀ t, t ∈ texts A ↔ t ∈ d.map (fun kv => kv.2.txt)) :
    eff A = alpha d :=
  eff_of_txtSet hd ⟨hnodup, hmem⟩

example : (texts [(⟨5, "38;5;1".toList⟩ : Setting), ⟨3, "2".toList⟩]).Nodup ∧
    ∀ t, t ∈ texts [(⟨5, "38;5;1".toList⟩ : Setting), ⟨3, "2".toList⟩] ↔
      t ∈ ([(2, ⟨0, "2".toList⟩), (13, ⟨0, "38;5;1".toList⟩)] : PyDict).map (fun kv => kv.2.txt) := by
  refine ⟨by decide, fun t => ?_⟩
  simp [texts]
  exact or_comm

/-! ## 4 — the main theorem -/

/-- Through `sgrs`: character `i` reports the style of the terminal state reached from the default
    state by the SGR sequences at offsets `≤ i`, in input order. -/
theorem parse_style_at (r : Str) (nid : Nat) (hwf : Term.wellFormed r = true) (i : Nat)
    (h : i < (Term.stripSgr r).length) :
    eff (act (AStr.setAnsi r nid).1 i) =
      feedSeqs Term.default (((sgrs r).filter (fun ks => ks.1 ≤ i)).map (·.2)) := by
  rw [setAnsi_eq_fold]
  have := (fold_inv _ (sgrs r) 0 _ _ _ (stepInv_init (Term.stripSgr r) nid) (C02.sgrs_sorted r)
    (fun _ _ => Nat.zero_le _) (ParseStyleL.wellFormed_sgrs r hwf)).2.1 i (Nat.zero_le _) h
  rw [this, alpha_nil]
  rfl

/-- **C02, style half, as one equation**: the denotation of the parsed value — every character of
    its text with the effective style it reports — is exactly what a conforming terminal displays
    on the input: the same characters, each in the same state. -/
theorem parse_style_den (r : Str) (nid : Nat) (hwf : Term.wellFormed r = true) :
    den (AStr.setAnsi r nid).1 = (Term.run Term.default r).1 := by
  rw [C02.run_eq_sgrs]
  unfold den
  rw [C02.parse_text]
  apply List.map_congr_left
  intro ci hci
  have hlt : ci.2 < (Term.stripSgr r).length := by simpa using List.snd_lt_of_mem_zipIdx hci
  rw [parse_style_at r nid hwf ci.2 hlt]

/-- **C02, style half, per character**: character `i` of the parsed value reports the effective
    style the terminal displays its `i`-th character in. -/
theorem parse_style (r : Str) (nid : Nat) (hwf : Term.wellFormed r = true) (i : Nat)
    (h : i < (Term.stripSgr r).length) :
    eff (act (AStr.setAnsi r nid).1 i) =
      ((Term.run Term.default r).1[i]'(by simpa [Term.stripSgr] using h)).2 := by
  have hlen : i < (Term.run Term.default r).1.length := by simpa [Term.stripSgr] using h
  have e1 : ((Term.run Term.default r).1)[i]? = (den (AStr.setAnsi r nid).1)[i]? := by
    rw [parse_style_den r nid hwf]
  have e2 : (den (AStr.setAnsi r nid).1)[i]? =
      some ((Term.stripSgr r)[i], eff (act (AStr.setAnsi r nid).1 i)) := by
    unfold den
    rw [C02.parse_text]
    simp [h]
  have e3 := (List.getElem?_eq_getElem hlen).symm.trans (e1.trans e2)
  rw [Option.some.inj e3]

/-- the same as a list: the states of the displayed characters, in order -/
theorem parse_style_list (r : Str) (nid : Nat) (hwf : Term.wellFormed r = true) :
    ((Term.run Term.default r).1).map (·.2) =
      (List.range (Term.stripSgr r).length).map (fun i => eff (act (AStr.setAnsi r nid).1 i)) := by
  rw [← parse_style_den r nid hwf]
  unfold den
  rw [C02.parse_text, List.map_map, List.range_eq_range', ← List.zipIdx_map_snd 0 (Term.stripSgr r),
    List.map_map]
  rfl

/-- the constructor `AnsiString(r)` / `AnsiStr(r)` without further settings is `set_ansi_str(r)` -/
theorem parse_style_ofStr (r : Str) (nid : Nat) (y : AStr) (hwf : Term.wellFormed r = true)
    (h : AStr.ofStr r [] nid = .ok y) : den y = (Term.run Term.default r).1 := by
  have e : AStr.ofStr r [] nid = .ok (AStr.setAnsi r nid).1 := rfl
  rw [e] at h
  cases h
  exact parse_style_den r nid hwf

example : (AStr.ofStr ex [] 0).toOption = some (AStr.setAnsi ex 0).1 := rfl

-- both sides on the running examples, character by character (`TState` is a function: compared
-- through `toList`, the values of all 14 groups)
example : (den (AStr.setAnsi ex 0).1).map (fun ct => (ct.1, ct.2.toList)) =
    [('a', [(.boldness, [1]), (.fg, [38, 5, 214])]), ('b', [(.underline, [4])]), ('c', [])] := by
  decide +kernel
example : (Term.run Term.default ex).1.map (fun ct => (ct.1, ct.2.toList)) =
    [('a', [(.boldness, [1]), (.fg, [38, 5, 214])]), ('b', [(.underline, [4])]), ('c', [])] := by
  decide +kernel
example : (den (AStr.setAnsi ex' 0).1).map (fun ct => (ct.1, ct.2.toList)) =
    [('a', [(.boldness, [1]), (.fg, [31])]), ('b', [(.boldness, [1]), (.fg, [32])]),
     ('c', [(.boldness, [2]), (.fg, [32])]), ('d', [(.boldness, [2]), (.fg, [32])]),
     ('e', [(.boldness, [2]), (.underline, [4]), (.fg, [38, 2, 1, 2, 3])])] := by decide +kernel
example : (Term.run Term.default ex').1.map (fun ct => (ct.1, ct.2.toList)) =
    [('a', [(.boldness, [1]), (.fg, [31])]), ('b', [(.boldness, [1]), (.fg, [32])]),
     ('c', [(.boldness, [2]), (.fg, [32])]), ('d', [(.boldness, [2]), (.fg, [32])]),
     ('e', [(.boldness, [2]), (.underline, [4]), (.fg, [38, 2, 1, 2, 3])])] := by decide +kernel
-- what character `e` of the second example reports: the precedence order is NOT the dict order
-- (`finalDict`), which is why section 3 is needed
example : texts (act (AStr.setAnsi ex' 0).1 4) = ["2".toList, "10".toList, "38;2;1;2;3".toList, "4".toList] ∧
    (finalDict ex' 0).map (fun kv => kv.2.txt) =
      ["2".toList, "38;2;1;2;3".toList, "10".toList, "4".toList] := by decide +kernel

/-- The scope hypothesis is needed: `+1` is a number for Python's `int()` and not a parameter for
    a terminal, so on `ESC[+1m a` the library reports bold where the terminal shows nothing. -/
theorem wellFormed_needed :
    ¬ (∀ r : Str, den (AStr.setAnsi r 0).1 = (Term.run Term.default r).1) := by
  intro h
  have h1 := congrArg (fun l => l.map (fun ct => ct.2 Term.Group.boldness)) (h "\x1b[+1ma".toList)
  revert h1
  decide +kernel

example : Term.wellFormed "\x1b[+1ma".toList = false := by decide

/-! ## 5 — text without ESC: every character reports nothing, as on the terminal -/

theorem parse_style_plain (r : Str) (nid : Nat) (h : '\x1b' ∉ r) (i : Nat) :
    act (AStr.setAnsi r nid).1 i = [] ∧ eff (act (AStr.setAnsi r nid).1 i) = Term.default := by
  rw [C02.parse_plain r nid h]
  exact ⟨rfl, feed_nil _⟩

/-- … and the terminal displays such text unchanged in its start state -/
theorem run_plain (t : TState) (r : Str) (h : '\x1b' ∉ r) :
    Term.run t r = (r.map (fun c => (c, t)), t) := by
  unfold Term.run
  rw [runAux_plain t r h []]
  rfl

example : '\x1b' ∉ "plain [1m text".toList := by decide

/-! ## 6 — the final state

    `theorem parse_style_eff_last : alpha (finalDict r nid) = (Term.run Term.default r).2` as first
    stated is FALSE: `set_ansi_str` skips sequences at the very end of the text
    (`if key >= len(self._s): break`), the terminal does not. -/

theorem eff_last_false :
    ¬ (∀ r : Str, Term.wellFormed r = true → alpha (finalDict r 0) = (Term.run Term.default r).2) := by
  intro h
  have h1 := congrFun (h "a\x1b[1m".toList (by decide)) Term.Group.boldness
  revert h1
  decide +kernel

/-- the true statement: the dict `set_ansi_str` ends with stands for the terminal state after the
    SGR sequences that precede some displayed character -/
theorem parse_style_eff_last (r : Str) (nid : Nat) (hwf : Term.wellFormed r = true) :
    alpha (finalDict r nid) =
      feedSeqs Term.default
        (((sgrs r).filter (fun ks => ks.1 < (Term.stripSgr r).length)).map (·.2)) ∧
    DictOK (finalDict r nid) := by
  have := (fold_inv _ (sgrs r) 0 _ _ _ (stepInv_init (Term.stripSgr r) nid) (C02.sgrs_sorted r)
    (fun _ _ => Nat.zero_le _) (ParseStyleL.wellFormed_sgrs r hwf)).2.2
  unfold finalDict
  refine ⟨?_, this.2⟩
  rw [this.1, alpha_nil]

/-- hence the final terminal state, when no SGR sequence stands at the very end of the input text -/
theorem parse_style_eff_last_run (r : Str) (nid : Nat) (hwf : Term.wellFormed r = true)
    (hend : ∀ ks ∈ sgrs r, ks.1 < (Term.stripSgr r).length) :
    alpha (finalDict r nid) = (Term.run Term.default r).2 := by
  rw [(parse_style_eff_last r nid hwf).1, C02.run_eq_sgrs]
  have : (sgrs r).filter (fun ks => ks.1 < (Term.stripSgr r).length) = sgrs r := by
    apply List.filter_eq_self.2
    intro ks hks
    simpa using hend ks hks
  rw [this]

example : Term.wellFormed ex = true ∧ ∀ ks ∈ sgrs ex, ks.1 < (Term.stripSgr ex).length := by decide

/-- … and in any case the style of the last character -/
theorem parse_style_eff_last_char (r : Str) (nid : Nat) (hwf : Term.wellFormed r = true)
    (hne : 0 < (Term.stripSgr r).length) :
    alpha (finalDict r nid) = eff (act (AStr.setAnsi r nid).1 ((Term.stripSgr r).length - 1)) := by
  rw [(parse_style_eff_last r nid hwf).1, parse_style_at r nid hwf _ (by omega)]
  congr 2
  apply List.filter_congr
  intro ks _
  simp only [decide_eq_decide]
  omega

example : Term.wellFormed "a\x1b[1m".toList = true ∧ 0 < (Term.stripSgr "a\x1b[1m".toList).length := by
  decide

end C02b

#print axioms C02b.items_eq_params
#print axioms C02b.wellFormed_sgrs
#print axioms C02b.seq_effect
#print axioms C02b.seq_dictOK
#print axioms C02b.eff_of_dict_values
#print axioms C02b.parse_style_at
#print axioms C02b.parse_style_den
#print axioms C02b.parse_style
#print axioms C02b.parse_style_list
#print axioms C02b.parse_style_ofStr
#print axioms C02b.wellFormed_needed
#print axioms C02b.parse_style_plain
#print axioms C02b.run_plain
#print axioms C02b.eff_last_false
#print axioms C02b.parse_style_eff_last
#print axioms C02b.parse_style_eff_last_run
#print axioms C02b.parse_style_eff_last_char
