import AnsiProofs.Props.C12d
import AnsiProofs.Props.C12c
import AnsiProofs.Props.C12b
import AnsiProofs.Props.C01b
import AnsiProofs.Props.C06
import AnsiProofs.Lemmas.Scrub
import AnsiProofs.Lemmas.Pad
import AnsiProofs.Lemmas.Apply
import AnsiModel.Generated.Methods.ApplyStringFormatCode
import AnsiModel.Generated.Methods.ToStrCode
/-
  Property C12, part e — `_apply_string_format` and the whole `to_str`, from the source.

  `Gen.applyStringFormatCode` and `Gen.toStrCode` are `AnsiString._apply_string_format` and
  `AnsiString.to_str` translated statement by statement on every run (harness/pyobj.py).  They call the
  translated `ljust`/`rjust`/`center` (C12c, C12b), the translated regular expressions (C12d), the
  translated rendering loop (C01b) and the hand-modelled `apply_formatting` (`AStr.applyRaw`, an
  external of the translation).  The theorems say that they are the model's `Render.applyStringFormat`
  and `AStr.toStr` on every value whose table is kept in ascending order.

  * `namespace C12e.L` — facts that do not depend on the shape of the generated text: `Except`
    plumbing, the primitives of `AnsiModel/Obj.lean` on the values they meet here, what the groups of
    the three justification patterns and of the spec pattern can be, preservation of `SortedKeys`.
  * `namespace C12e` — the theorems over `Gen.*`: `unfold`, the regular expressions rewritten by C12d,
    a case split on what the model looks at, and `simp` with the lemmas of `L`.
-/
namespace C12e
namespace L
open PadL PadL.Rx Render

/-! ## `Except` plumbing -/

theorem bind_ok {ε α β : Type} (a : α) (f : α → Except ε β) : (Except.ok a).bind f = f a := rfl

theorem bind_error {ε α β : Type} (e : ε) (f : α → Except ε β) :
    (Except.error e : Except ε α).bind f = .error e := rfl

theorem bind_ok_right {ε α : Type} (a : Except ε α) : a.bind .ok = a := by cases a <;> rfl

theorem liftPy_ok {α : Type} (a : α) : Obj.liftPy (.ok a : Except PyErr α) = .ok a := rfl

theorem liftPy_error {α : Type} (e : PyErr) : Obj.liftPy (.error e : Except PyErr α) = .error (.py e) := rfl

theorem liftPy_pure {α : Type} (a : α) : Obj.liftPy (pure a : Except PyErr α) = .ok a := rfl

theorem liftPy_bind {α β : Type} (a : Except PyErr α) (f : α → Except PyErr β) :
    Obj.liftPy (a >>= f) = (Obj.liftPy a).bind (fun v => Obj.liftPy (f v)) := by cases a <;> rfl

theorem liftPy_map {α β : Type} (a : Except PyErr α) (f : α → β) :
    Obj.liftPy (f <$> a) = (Obj.liftPy a).bind (fun v => .ok (f v)) := by cases a <;> rfl

theorem liftPy_ite {α : Type} (c : Prop) [Decidable c] (a b : Except PyErr α) :
    Obj.liftPy (if c then a else b) = if c then Obj.liftPy a else Obj.liftPy b := by split <;> rfl

/-! ## the primitives of the translation on the values met here -/

theorem optGet_some {α : Type} (a : α) : Py.optGet (some a) = .ok a := rfl

theorem getIdx_zero {α : Type} (a : α) (l : List α) : Py.getIdx (a :: l) 0 = .ok a := by
  simp [Py.getIdx]

theorem getIdx_one {α : Type} (a b : α) (l : List α) : Py.getIdx (a :: b :: l) 1 = .ok b := by
  simp [Py.getIdx]

theorem listSlice_one (c : Char) (r : Str) : Py.listSlice (c :: r) (some 1) none = r := by
  simp [Py.listSlice, Py.listIdx]

theorem pyInt_digits {ds : Str} (h : ∀ c ∈ ds, Py.isDigit c = true) (hne : ds ≠ []) :
    Py.pyInt ds = .ok (Py.digitsVal ds : Int) := by
  unfold Py.pyInt
  rw [ScrubL.int_digits hne h]

/-- `not match.group(2) or match.group(2) == '+'` -/
theorem extend_eq (g2 : Option Str) :
    ((!(Py.truthyOptStr g2)) || (g2 == some ([Char.ofNat 43] : Str))) =
      ((g2.getD []).isEmpty || (g2.getD []) == ['+']) := by
  cases g2 with
  | none => rfl
  | some s => cases s <;> simp [Py.truthyOptStr]

/-- the fill character the model reads off group 1 -/
def fillOf (caps : Re.Caps) : Char :=
  match Re.group caps 1 with
  | some (c :: _) => c
  | _ => ' '

/-- `match.group(1) or ' '` is one character when group 1 is `(.?)` -/
theorem optStrOr_fill {caps : Re.Caps} (h : ∀ g, Re.group caps 1 = some g → g.length ≤ 1) :
    Py.optStrOr (Re.group caps 1) ([Char.ofNat 32] : Str) = [fillOf caps] := by
  unfold fillOf Py.optStrOr
  cases hg : Re.group caps 1 with
  | none => rfl
  | some g =>
    have := h g hg
    match g, this with
    | [], _ => rfl
    | [c], _ => rfl

/-! ## `SortedKeys` is kept by everything `_apply_string_format` does -/

theorem sorted_applyFormatting {x : AStr} (hs : SortedKeys x.fmts) (N : List Setting)
    (st en : Option Int) (top : Bool) : SortedKeys (x.applyFormatting N st en top).fmts := by
  unfold AStr.applyFormatting
  simp only []
  repeat' split
  all_goals
    first
    | exact hs
    | (simp only []
       repeat (first | apply _root_.Fmts.sorted_modify | apply _root_.Fmts.sorted_ensure)
       exact hs)

theorem sorted_applyRaw {x y : AStr} (hs : SortedKeys x.fmts) {nid : Nat} {a : SArg}
    {st en : Option Int} {top : Bool} (h : x.applyRaw nid a st en top = .ok y) : SortedKeys y.fmts := by
  rcases applyRaw_spec x y nid a st en top h with e | ⟨ts, -, e⟩
  · rw [e]; exact hs
  · rw [e]; exact sorted_applyFormatting hs _ _ _ _

theorem sorted_ljust {x : AStr} (hs : SortedKeys x.fmts) (w : Int) (c : Char) (e : Bool) :
    SortedKeys (x.ljust w c e).fmts := by
  unfold AStr.ljust
  simp only []
  repeat' split
  all_goals
    first
    | exact hs
    | exact _root_.Fmts.sorted_set (PadL.Fmts.sorted_erase hs _) _ _

theorem sorted_rjust {x : AStr} (hs : SortedKeys x.fmts) (w : Int) (c : Char) (e : Bool) :
    SortedKeys (x.rjust w c e).fmts := by
  unfold AStr.rjust
  simp only []
  split
  · exact sorted_shiftKeys hs _ _
  · exact hs

theorem sorted_center {x : AStr} (hs : SortedKeys x.fmts) (w : Int) (c : Char) (e : Bool) :
    SortedKeys (x.center w c e).fmts := by
  unfold AStr.center
  simp only []
  split
  · cases e <;> simp only [if_true, if_false, Bool.false_eq_true]
    · exact sorted_shiftKeys hs _ _
    · split
      · exact _root_.Fmts.sorted_set (sorted_shiftKeys (PadL.Fmts.sorted_erase hs _) _ _) _ _
      · exact sorted_shiftKeys (PadL.Fmts.sorted_erase hs _) _ _
  · exact hs

/-! ## what the groups of the three justification patterns can be -/

/-- group 3 is a run of digits, group 1 (when it took part) at most one character -/
def Good (caps : Re.Caps) : Prop :=
  (∃ ds, Re.group caps 3 = some ds ∧ ∀ c ∈ ds, Py.isDigit c = true) ∧
  (∀ g, Re.group caps 1 = some g → g.length ≤ 1)

theorem tw_digits (r : Str) : ∀ c ∈ tw r, Py.isDigit c = true := by
  induction r with
  | nil => intro c hc; cases hc
  | cons a r ih =>
    intro c hc
    by_cases ha : Py.isDigit a = true
    · rw [tw, List.takeWhile_cons_of_pos ha] at hc
      rcases List.mem_cons.mp hc with rfl | hc
      · exact ha
      · exact ih c hc
    · rw [tw, List.takeWhile_cons_of_neg ha] at hc; cases hc

theorem good_mk3 (r g2 g1 : Str) (h1 : g1.length ≤ 1) : Good [(3, tw r), (2, g2), (1, g1)] := by
  refine ⟨⟨tw r, rfl, tw_digits r⟩, ?_⟩
  intro g hg
  have : g = g1 := by simpa [Re.group] using hg.symm
  rw [this]; exact h1

theorem good_mk0 (r : Str) : Good [(3, tw r)] := by
  refine ⟨⟨tw r, rfl, tw_digits r⟩, ?_⟩
  intro g hg
  simp [Re.group] at hg

theorem good_aligned {X : Char} {s : Str} {caps : Re.Caps} (h : alignedRef X s = some caps) : Good caps := by
  unfold alignedRef at h
  simp only [Option.or_eq_some_iff] at h
  rcases h with h | ⟨_, h | ⟨_, h | ⟨_, h⟩⟩⟩
  · unfold try3 at h
    split at h
    · split at h
      · cases h; exact good_mk3 _ _ _ (by simp)
      · cases h
    · cases h
  · unfold try2 at h
    split at h
    · split at h
      · cases h; exact good_mk3 _ _ _ (by simp)
      · cases h
    · cases h
  · unfold tryS at h
    split at h
    · split at h
      · cases h; exact good_mk3 _ _ _ (by simp)
      · cases h
    · cases h
  · unfold try1 at h
    split at h
    · split at h
      · cases h; exact good_mk3 _ _ _ (by simp)
      · cases h
    · cases h

theorem good_reAligned {X : Char} {s : Str} {caps : Re.Caps}
    (h : Re.matchStart (reAligned X) s = some caps) : Good caps := by
  rw [matchStart_reAligned] at h; exact good_aligned h

theorem good_reLeft {s : Str} {caps : Re.Caps} (h : Re.matchStart reLeft s = some caps) : Good caps := by
  rw [matchStart_reLeft] at h
  unfold leftRef at h
  simp only [Option.or_eq_some_iff] at h
  rcases h with h | ⟨_, h⟩
  · exact good_aligned h
  · unfold try0 at h
    split at h
    · cases h; exact good_mk0 _
    · cases h

/-! ## the spec pattern of `to_str`: group 1 always takes part -/

def Has (n : Nat) (caps : Re.Caps) : Prop := (Re.group caps n).isSome = true

theorem has_cap {n : Nat} {c : Re.Caps} (m : Nat) (t : Str) (h : Has n c) :
    Has n ((m, t) :: c.filter (·.1 != m)) := by
  unfold Has Re.group at *
  by_cases hm : m = n
  · simp [hm]
  · have hm' : (m == n) = false := by simpa using hm
    simp only [List.find?_cons, hm', Option.isSome_map, List.find?_isSome] at h ⊢
    obtain ⟨x, hx, hxn⟩ := h
    refine ⟨x, List.mem_filter.mpr ⟨hx, ?_⟩, hxn⟩
    have : x.1 = n := by simpa using hxn
    simp [this]; exact fun e => hm e.symm

/-- whatever the matcher answers comes from the continuation, called on captures that still have
    every property the capture steps keep -/
theorem m_inv {α} (P : Re.Caps → Prop)
    (hP : ∀ n t c, P c → P ((n, t) :: c.filter (·.1 != n))) :
    ∀ (r : Re) (s : Str) (caps : Re.Caps) (k : Str → Re.Caps → Option α) (a : α),
      P caps → Re.m r s caps k = some a → ∃ rest c', P c' ∧ k rest c' = some a := by
  intro r
  induction r with
  | cls p =>
    intro s caps k a hc h
    cases s with
    | nil => simp [Re.m] at h
    | cons c rest =>
      simp only [Re.m] at h
      split at h
      · exact ⟨_, _, hc, h⟩
      · cases h
  | star p =>
    intro s caps k a hc h
    simp only [Re.m] at h
    generalize (s.takeWhile p).length = n at h
    induction n with
    | zero => rw [Re.m.go.eq_1] at h; exact ⟨_, _, hc, h⟩
    | succ n ih =>
      rw [Re.m.go.eq_2] at h
      split at h
      · rename_i b hb; cases h; exact ⟨_, _, hc, hb⟩
      · exact ih h
  | opt r ih =>
    intro s caps k a hc h
    rw [Re.m] at h
    split at h
    · rename_i b hb; cases h; exact ih _ _ _ _ hc hb
    · exact ⟨_, _, hc, h⟩
  | cap n r ih =>
    intro s caps k a hc h
    rw [Re.m] at h
    obtain ⟨rest, c', hc', hk⟩ := ih _ _ _ _ hc h
    exact ⟨rest, _, hP _ _ _ hc', hk⟩
  | seq x y ihx ihy =>
    intro s caps k a hc h
    rw [Re.m] at h
    obtain ⟨rest, c', hc', hk⟩ := ihx _ _ _ _ hc h
    exact ihy _ _ _ _ hc' hk
  | alt x y ihx ihy =>
    intro s caps k a hc h
    rw [Re.m] at h
    split at h
    · rename_i b hb; cases h; exact ihx _ _ _ _ hc hb
    · exact ihy _ _ _ _ hc h
  | eps =>
    intro s caps k a hc h
    rw [Re.m] at h
    exact ⟨_, _, hc, h⟩
  | eos =>
    intro s caps k a hc h
    rw [Re.m] at h
    split at h
    · exact ⟨_, _, hc, h⟩
    · cases h

/-- `(^.?[-\+]?[<>\^]?[0-9]*)(:.*)?$`: a match has its group 1 -/
theorem reSpec_group1 {s : Str} {caps : Re.Caps} (h : Re.matchStart reSpec s = some caps) :
    ∃ g1, Re.group caps 1 = some g1 := by
  unfold Re.matchStart reSpec at h
  rw [Re.m, Re.m] at h
  obtain ⟨rest, c', -, hk⟩ := m_inv (fun _ => True) (fun _ _ _ _ => trivial) _ _ _ _ _ trivial h
  have h1 : Has 1 ((1, s.take (s.length - rest.length)) :: c'.filter (·.1 != 1)) := by
    unfold Has Re.group; simp
  obtain ⟨_, c'', hc'', hk'⟩ := m_inv (Has 1) (fun n t c hc => has_cap n t hc) _ _ _ _ _ h1 hk
  cases hk'
  exact Option.isSome_iff_exists.mp hc''

/-! ## the model's `applyJust` with the three things it reads off the match named -/

def padOf (j : Just) (obj : AStr) (w : Int) (fill : Char) (extend : Bool) : AStr :=
  match j with
  | .left => obj.ljust w fill extend
  | .right => obj.rjust w fill extend
  | .center => obj.center w fill extend

def padCore (obj : AStr) (nid : Nat) (fill : Char) (extend : Bool) (j : Just) (num : Str)
    (st : SArg) (doApply : Bool) : Except PyErr AStr := do
  let obj ← if !extend ∧ doApply then obj.applyRaw nid st none none else pure obj
  let obj := if num.isEmpty then obj else padOf j obj (Py.digitsVal num) fill extend
  if extend ∧ doApply then obj.applyRaw nid st none none else pure obj

def padJ (obj : AStr) (nid : Nat) (fill : Char) (extend : Bool) (j : Just) (num : Str)
    (settings : Option Str) : Except PyErr AStr :=
  padCore obj nid fill extend j num (.str (settings.getD []))
    (match settings with | some s => !s.isEmpty | none => false)

theorem applyJust_eq (obj : AStr) (nid : Nat) (caps : Re.Caps) (j : Just) (settings : Option Str) :
    applyJust obj nid caps j settings =
      padJ obj nid (fillOf caps) (((Re.group caps 2).getD []).isEmpty || (Re.group caps 2).getD [] == ['+']) j
        ((Re.group caps 3).getD []) settings := rfl

theorem sorted_padCore {x y : AStr} (hs : SortedKeys x.fmts) {nid : Nat} {c : Char} {e : Bool} {j : Just}
    {ds : Str} {a : SArg} {d : Bool} (h : padCore x nid c e j ds a d = .ok y) : SortedKeys y.fmts := by
  -- the pad keeps the order whatever it is applied to
  have hp : ∀ z : AStr, SortedKeys z.fmts →
      SortedKeys (if ds.isEmpty then z else padOf j z (Py.digitsVal ds) c e).fmts := by
    intro z hz
    split
    · exact hz
    · cases j
      · exact sorted_ljust hz _ _ _
      · exact sorted_rjust hz _ _ _
      · exact sorted_center hz _ _ _
  unfold padCore at h
  cases e <;> cases d <;>
    simp only [Bool.not_true, Bool.not_false, Bool.false_eq_true, and_self, and_true, and_false, if_true, if_false, bind, Except.bind, pure, Except.pure] at h
  · cases h; exact hp x hs
  · split at h
    · cases h
    · rename_i z hz; cases h; exact hp z (sorted_applyRaw hs hz)
  · cases h; exact hp x hs
  · exact sorted_applyRaw (hp x hs) h

theorem sorted_padJ {x y : AStr} (hs : SortedKeys x.fmts) {nid : Nat} {c : Char} {e : Bool} {j : Just}
    {ds : Str} {settings : Option Str} (h : padJ x nid c e j ds settings = .ok y) : SortedKeys y.fmts :=
  sorted_padCore hs h

theorem sorted_applyStringFormat {x y : AStr} (hs : SortedKeys x.fmts) {nid : Nat} {fmt : Str}
    {settings : Option Str} (h : applyStringFormat x nid fmt settings = .ok y) : SortedKeys y.fmts := by
  unfold applyStringFormat at h
  simp only [applyJust_eq] at h
  repeat' split at h
  all_goals first | exact sorted_padJ hs h | cases h

theorem sorted_applySpec {x y : AStr} (hs : SortedKeys x.fmts) {nid : Nat} {spec : Str}
    (h : applySpec x nid spec = .ok y) : SortedKeys y.fmts := by
  rw [applySpec_eq] at h
  generalize specParts spec = parts at h
  obtain ⟨p1, p2⟩ := parts
  simp only [] at h
  split at h
  · exact sorted_applyStringFormat hs h
  · split at h
    · split at h
      · cases h; exact hs
      · exact sorted_applyRaw hs h
    · cases h; exact hs

/-! ## the rendering loop (C01b) with `optimize` resolved, alone and behind a call that keeps the order -/

theorem render_opt (y : AStr) (hy : SortedKeys y.fmts) (a : AStr) (rs re : Bool) :
    Gen.renderCore a y y.isFormattingParsable rs re = .ok (render y true rs re) := by
  simpa using C01b.renderCore_is_code y hy a true rs re

theorem render_plain (y : AStr) (hy : SortedKeys y.fmts) (a : AStr) (rs re : Bool) :
    Gen.renderCore a y false rs re = .ok (render y false rs re) := by
  simpa using C01b.renderCore_is_code y hy a false rs re

theorem render_opt_bind {a : Except PyErr AStr} (ha : ∀ y, a = .ok y → SortedKeys y.fmts) (s : AStr)
    (rs re : Bool) :
    (Obj.liftPy a).bind (fun obj => Gen.renderCore s obj obj.isFormattingParsable rs re) =
      (Obj.liftPy a).bind (fun obj => .ok (render obj true rs re)) := by
  cases a with
  | error e => rfl
  | ok y => exact render_opt y (ha y rfl) s rs re

theorem render_plain_bind {a : Except PyErr AStr} (ha : ∀ y, a = .ok y → SortedKeys y.fmts) (s : AStr)
    (rs re : Bool) :
    (Obj.liftPy a).bind (fun obj => Gen.renderCore s obj false rs re) =
      (Obj.liftPy a).bind (fun obj => .ok (render obj false rs re)) := by
  cases a with
  | error e => rfl
  | ok y => exact render_plain y (ha y rfl) s rs re

end L
open L Render

/-- both methods were translated (neither fell outside the translator's fragment) -/
theorem translated : Gen.applyStringFormatCodeOk = true ∧ Gen.toStrCodeOk = true := by decide

set_option linter.unusedSimpArgs false   -- the same `simp` set serves every branch

/- one branch of `_apply_string_format` once its pattern has matched; `$hg` is what is known of the
   groups (the names `x`, `hs`, `settings`, `nid` are those of the theorem below) -/
set_option hygiene false in
local macro "just_tail " hg:term : tactic => `(tactic| (
  obtain ⟨⟨ds, hds, hdig⟩, hg1⟩ := $hg
  simp only [applyJust_eq, Option.isSome_some, Option.isSome_none, Bool.false_eq_true, optGet_some, bind_ok, hds,
    extend_eq, optStrOr_fill hg1, Option.getD_some, if_true, if_false]
  generalize fillOf _ = c
  generalize (((Re.group _ 2).getD []).isEmpty || (Re.group _ 2).getD [] == ['+']) = e
  -- the first `apply_formatting`, when it ends normally, gives a sorted table again
  have hA : ∀ st, ∃ y, SortedKeys y.fmts ∧ (x.applyRaw nid (.str st) none none = .ok y ∨
      ∃ err, x.applyRaw nid (.str st) none none = .error err) := by
    intro st
    cases hA : x.applyRaw nid (.str st) none none with
    | error err => exact ⟨x, hs, Or.inr ⟨err, rfl⟩⟩
    | ok y => exact ⟨y, sorted_applyRaw hs hA, Or.inl rfl⟩
  rcases settings with _ | st
  · cases e <;> by_cases hne : ds = [] <;>
      simp [Py.truthyOptStr, bind_ok, bind_error, bind_ok_right, liftPy_ok, liftPy_error, hne,
        pyInt_digits hdig, padJ, padCore, padOf, C12c.ljust_is_code, C12b.rjust_is_code _ hs,
        C12b.center_is_code _ hs, bind, pure, Except.pure]
  · obtain ⟨y, hy, hA | ⟨err, hA⟩⟩ := hA st <;> by_cases hst : st = [] <;> cases e <;>
      by_cases hne : ds = [] <;>
      simp [Py.truthyOptStr, optGet_some, bind_ok, bind_error, bind_ok_right, liftPy_ok, liftPy_error, hne,
        hst, hA, pyInt_digits hdig, padJ, padCore, padOf, C12c.ljust_is_code, C12b.rjust_is_code _ hs,
        C12b.center_is_code _ hs, C12b.rjust_is_code _ hy, C12b.center_is_code _ hy,
        bind, pure, Except.pure]))

/-- THE GENERATED `_apply_string_format` IS THE MODEL'S `applyStringFormat` -/
theorem applyStringFormat_is_code (x : AStr) (hs : SortedKeys x.fmts) (fmt : Str) (settings : Option Str)
    (nid : Nat) :
    Gen.applyStringFormatCode x fmt settings nid = Obj.liftPy (Render.applyStringFormat x nid fmt settings) := by
  unfold Gen.applyStringFormatCode Render.applyStringFormat
  simp only [C12d.left_is_code, C12d.right_is_code, C12d.center_is_code]
  cases h1 : Re.matchStart reLeft fmt with
  | some caps => just_tail (good_reLeft h1)
  | none =>
    cases h2 : Re.matchStart (reAligned '>') fmt with
    | some caps => just_tail (good_reAligned h2)
    | none =>
      cases h3 : Re.matchStart (reAligned '^') fmt with
      | some caps => just_tail (good_reAligned h3)
      | none => simp [liftPy_error]

/- what `simp` needs in every branch of `to_str` (the names `x`, `hs` are those of the theorem below) -/
set_option hygiene false in
local macro "to_str_simp" : tactic => `(tactic|
  simp [Py.truthyOptStr, optGet_some, bind_ok, bind_error, getIdx_zero, getIdx_one, listSlice_one,
    applyStringFormat_is_code x hs, render_opt x hs, render_plain x hs,
    render_opt_bind (fun y h => sorted_applyStringFormat hs h),
    render_plain_bind (fun y h => sorted_applyStringFormat hs h),
    render_opt_bind (fun y h => sorted_applyRaw hs h), render_plain_bind (fun y h => sorted_applyRaw hs h),
    liftPy_bind, liftPy_map, liftPy_ok, liftPy_error, liftPy_pure, *])

/-- THE GENERATED `to_str` IS THE MODEL'S `toStr` -/
theorem toStr_is_code (x : AStr) (hs : SortedKeys x.fmts) (spec : Option Str) (opt rs re : Bool) (nid : Nat) :
    Gen.toStrCode x spec opt rs re nid = Obj.liftPy (x.toStr spec opt rs re nid) := by
  unfold Gen.toStrCode AStr.toStr
  rcases spec with _ | sp
  · cases opt <;> to_str_simp <;> split <;> simp [liftPy_ok]
  · by_cases hsp : sp = []
    · subst hsp
      cases opt <;> to_str_simp <;> split <;> simp [liftPy_ok]
    · rw [PadL.Rx.applySpec_eq]
      unfold PadL.Rx.specParts
      simp only [C12d.spec_is_code]
      cases hm : Re.matchStart reSpec sp with
      | none => cases opt <;> to_str_simp
      | some caps =>
        obtain ⟨g1, hg1⟩ := reSpec_group1 hm
        rcases hg2 : Re.group caps 2 with _ | _ | ⟨c2, rest⟩ <;> by_cases h1 : g1 = [] <;> cases opt <;>
          to_str_simp <;>
          -- an empty settings part after the colon: nothing is applied
          (try (split <;> simp [liftPy_ok, bind_ok]))

/-! ## Corollaries: the outcomes the model cannot hold do not occur -/

theorem applyStringFormat_never_outside (x : AStr) (hs : SortedKeys x.fmts) (fmt : Str) (settings : Option Str)
    (nid : Nat) :
    Gen.applyStringFormatCode x fmt settings nid ≠ .error .key ∧
    Gen.applyStringFormatCode x fmt settings nid ≠ .error .outside := by
  rw [applyStringFormat_is_code x hs]
  cases Render.applyStringFormat x nid fmt settings <;> exact ⟨by simp [Obj.liftPy], by simp [Obj.liftPy]⟩

theorem toStr_never_outside (x : AStr) (hs : SortedKeys x.fmts) (spec : Option Str) (opt rs re : Bool) (nid : Nat) :
    Gen.toStrCode x spec opt rs re nid ≠ .error .key ∧ Gen.toStrCode x spec opt rs re nid ≠ .error .outside := by
  rw [toStr_is_code x hs]
  cases x.toStr spec opt rs re nid <;> exact ⟨by simp [Obj.liftPy], by simp [Obj.liftPy]⟩

/-- with no format spec nothing is raised at all -/
theorem toStr_none_ok (x : AStr) (hs : SortedKeys x.fmts) (opt rs re : Bool) (nid : Nat) :
    ∃ t, Gen.toStrCode x none opt rs re nid = .ok t := by
  rw [toStr_is_code x hs]
  unfold AStr.toStr
  simp only []
  split
  · exact ⟨_, rfl⟩
  · exact ⟨_, rfl⟩

/-! ## Non-vacuity: "abcd", object 0 (`31`) from 0 to 4, object 1 (`1`) from 2 to 4 -/

def x0 : AStr :=
  { s := "abcd".toList,
    fmts := [(0, { add := [⟨0, "31".toList⟩] }), (2, { add := [⟨1, "1".toList⟩] }),
             (4, { rem := [⟨0, "31".toList⟩, ⟨1, "1".toList⟩] })] }

theorem x0_sorted : SortedKeys x0.fmts := by unfold SortedKeys x0; decide

example : Gen.toStrCode x0 none true false true 7 = Obj.liftPy (x0.toStr none true false true 7) := by
  decide +kernel
example : Gen.toStrCode x0 (some ">8:blue".toList) true false true 7 =
    Obj.liftPy (x0.toStr (some ">8:blue".toList) true false true 7) := by decide +kernel
example : Gen.toStrCode x0 (some "*-^9:[4".toList) false true false 7 =
    Obj.liftPy (x0.toStr (some "*-^9:[4".toList) false true false 7) := by decide +kernel
example : Gen.toStrCode x0 (some "x".toList) true false true 7 = .error (.py .valueError) := by decide +kernel
-- a ValueError that comes from the settings (`":nope"` agrees too — checked by `#eval` — but the kernel needs
-- 30 s for it, because the whole table of names is searched; a negative code is refused before that)
example : Gen.toStrCode x0 (some ":-5".toList) true false true 7 = .error (.py .valueError) := by decide +kernel
example : x0.toStr (some ":-5".toList) true false true 7 = .error .valueError := by decide +kernel
example : Gen.toStrCode x0 (some "".toList) true false true 7 = Gen.toStrCode x0 none true false true 7 := by
  decide +kernel
example : Gen.toStrCode x0 (some "6".toList) false false false 7 =
    Obj.liftPy (x0.toStr (some "6".toList) false false false 7) := by decide +kernel
example : Gen.applyStringFormatCode x0 "*-^9".toList (some "[4".toList) 7 =
    Obj.liftPy (Render.applyStringFormat x0 7 "*-^9".toList (some "[4".toList)) := by decide +kernel
example : (Gen.applyStringFormatCode x0 "_+<7".toList none 7).toOption.map (·.s) = some "abcd___".toList := by
  decide +kernel
example : Gen.applyStringFormatCode x0 "+5".toList none 7 = .error (.py .valueError) := by decide +kernel

end C12e

#print axioms C12e.translated
#print axioms C12e.applyStringFormat_is_code
#print axioms C12e.toStr_is_code
#print axioms C12e.applyStringFormat_never_outside
#print axioms C12e.toStr_never_outside
#print axioms C12e.toStr_none_ok
