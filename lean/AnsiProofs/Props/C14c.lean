import AnsiModel.Scrub
import AnsiModel.Generated.Regexes
import AnsiProofs.Lemmas.RegexEquiv
/-
  Property C14, part c — the three regular expressions of `_parse_rgb_string` are the source's.

  `Gen.regex_parse_rgb_string_1 … _3` are the patterns of the three `re.search` calls of
  `_AnsiSettingPoint._parse_rgb_string`, parsed with Python's own `re._parser` and translated into the
  model's `Re` on every run (harness/pyre.py; `Gen.regexSources` keeps the texts).  The model's hand-written
  `Scrub.reRgb3`, `Scrub.reRgb1`, `Scrub.reColor` return, on EVERY string, the same `Re.matchStart` (the same
  match/no match and the same captured groups 1–7), so `C14.reject_stray_close_bracket` and the other
  C14 theorems about `Scrub.parseRgbString` are about the patterns the source contains now: a stray `)`
  back inside `[\[\(]` changes `Gen.regex_parse_rgb_string_*` and the theorems below stop building.

  (`\s` is the model's ASCII `Py.isSpace`; Unicode white space is unmodelled, DESIGN §4.)
-/
namespace C14c

open RegexEquivL

/-- every pattern of the three functions was inside the translated fragment -/
theorem translated : Gen.regexesOk = true := by decide

/-- the call sites found in `_parse_rgb_string`, in source order (3 today; a fourth one would show here) -/
theorem sites : (Gen.regexSources.map (·.1)).filter (·.startsWith "regex_parse_rgb_string") =
    ["regex_parse_rgb_string_1", "regex_parse_rgb_string_2", "regex_parse_rgb_string_3"] := by decide +kernel

/-- `^((?:fg_)?|(?:bg_)|(?:ul_)|(?:dul_))rgb\([\[\(]?\s*(0x)?([0-9a-fA-F]+)\s*,\s*(0x)?([0-9a-fA-F]+)\s*,\s*(0x)?([0-9a-fA-F]+)\s*[\)\]]?\)$`
    is the model's `reRgb3` -/
theorem rgb3_is_code : ∀ s, Re.matchStart Gen.regex_parse_rgb_string_1 s = Re.matchStart Scrub.reRgb3 s := by
  unfold Gen.regex_parse_rgb_string_1
  re_equiv

/-- `^((?:fg_)?|(?:bg_)|(?:ul_)|(?:dul_))rgb\([\[\(]?\s*(0x)?([0-9a-fA-F]+)\s*[\)\]]?\)$` is the model's `reRgb1` -/
theorem rgb1_is_code : ∀ s, Re.matchStart Gen.regex_parse_rgb_string_2 s = Re.matchStart Scrub.reRgb1 s := by
  unfold Gen.regex_parse_rgb_string_2
  re_equiv

/-- `^((?:fg_)?|(?:bg_)|(?:ul_)|(?:dul_))colou?r256\([\[\(]?\s*(0x)?([0-9a-fA-F]+)\s*[\)\]]?\)$` is the model's `reColor` -/
theorem color256_is_code : ∀ s, Re.matchStart Gen.regex_parse_rgb_string_3 s = Re.matchStart Scrub.reColor s := by
  unfold Gen.regex_parse_rgb_string_3
  re_equiv

/-- hence the model's `_parse_rgb_string` may be read with the source's patterns -/
theorem parseRgbString_with_code (s : Str) :
    Scrub.parseRgbString s =
      (match Re.matchStart Gen.regex_parse_rgb_string_1 s with
       | some caps =>
         let g := Re.group caps
         match Scrub.numVal ((g 3).getD []) (g 2).isSome, Scrub.numVal ((g 5).getD []) (g 4).isSome,
               Scrub.numVal ((g 7).getD []) (g 6).isSome with
         | some r, some gr, some b =>
           some (.ok (Scrub.colorSettings (Scrub.component (g 1)) true [min 255 r, min 255 gr, min 255 b]))
         | _, _, _ => some (.error .valueError)
       | none =>
       match Re.matchStart Gen.regex_parse_rgb_string_2 s with
       | some caps =>
         let g := Re.group caps
         match Scrub.numVal ((g 3).getD []) (g 2).isSome with
         | some v =>
           some (.ok (Scrub.colorSettings (Scrub.component (g 1)) true [(v / 65536) % 256, (v / 256) % 256, v % 256]))
         | none => some (.error .valueError)
       | none =>
       match Re.matchStart Gen.regex_parse_rgb_string_3 s with
       | some caps =>
         let g := Re.group caps
         match Scrub.numVal ((g 3).getD []) (g 2).isSome with
         | some v => some (.ok (Scrub.colorSettings (Scrub.component (g 1)) false [v]))
         | none => some (.error .valueError)
       | none => none) := by
  rw [rgb3_is_code, rgb1_is_code, color256_is_code]
  rfl

/-! the source's patterns, run: the stray `)` of defect D35 is rejected, the bracketed forms are accepted -/
example : Re.matchStart Gen.regex_parse_rgb_string_1 "rgb()1,2,3)".toList = none := by decide +kernel
example : Re.matchStart Gen.regex_parse_rgb_string_2 "rgb()1)".toList = none := by decide +kernel
example : Re.matchStart Gen.regex_parse_rgb_string_3 "ul_color256()17)".toList = none := by decide +kernel
example : (Re.matchStart Gen.regex_parse_rgb_string_1 "rgb(1,2,3)".toList).isSome = true := by decide +kernel
example : (Re.matchStart Gen.regex_parse_rgb_string_1 "bg_rgb([0x10, 2, 3])".toList).isSome = true := by decide +kernel
example : (Re.matchStart Gen.regex_parse_rgb_string_1 "bg_rgb([0x10, 2, 3])".toList).map
      (fun c => (Re.group c 1, Re.group c 2, Re.group c 3)) =
    some (some "bg_".toList, some "0x".toList, some "10".toList) := by decide +kernel
example : (Re.matchStart Gen.regex_parse_rgb_string_1 "bg_rgb([0x10, 2, 3])".toList).map
      (fun c => (Re.group c 4, Re.group c 5, Re.group c 7)) =
    some (none, some "2".toList, some "3".toList) := by decide +kernel
example : (Re.matchStart Gen.regex_parse_rgb_string_1 "rgb((1,2,3))".toList).isSome = true := by decide +kernel
example : (Re.matchStart Gen.regex_parse_rgb_string_2 "dul_rgb(0xff00ff)".toList).map (fun c => Re.group c 1) =
    some (some "dul_".toList) := by decide +kernel
example : (Re.matchStart Gen.regex_parse_rgb_string_3 "fg_colour256( 17 )".toList).isSome = true := by decide +kernel
example : Re.matchStart Gen.regex_parse_rgb_string_3 "color256(17".toList = none := by decide +kernel

end C14c

#print axioms C14c.translated
#print axioms C14c.sites
#print axioms C14c.rgb3_is_code
#print axioms C14c.rgb1_is_code
#print axioms C14c.color256_is_code
#print axioms C14c.parseRgbString_with_code
