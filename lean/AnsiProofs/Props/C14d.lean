import AnsiProofs.Props.C14c
import AnsiProofs.Lemmas.Scrub
import AnsiModel.Generated.Methods.ParsePrims
import AnsiModel.Generated.Methods.ScrubFormatInt
import AnsiModel.Generated.Methods.ParseRgbString
import AnsiModel.Generated.Methods.ScrubSettingsObjs
import AnsiModel.Generated.Methods.ScrubFormatString

/-
  Property C14, part d — the *generated* (statement-by-statement translated, `harness/pyparse.py`) static
  methods of `_AnsiSettingPoint` (ansi_string.py)
      `_scrub_ansi_format_int`, `_parse_rgb_string`, `_scrub_ansi_format_string`,
      and `_scrub_ansi_settings` for the one call the latter makes (a list of AnsiSettings)
  compute exactly what the hand-written model says (`Scrub.parseRgbString`, `Scrub.scrubString` / `scrubDirective`
  of `AnsiModel/Scrub.lean`), *with the error class*: the same value, or the same Python exception
  (ValueError), for every input; nothing else is raised (`int(None, …)` TypeError, `None.ansi_settings`,
  IndexError, digits or colour values outside the modelled domain of the primitives, running out of fuel).

  NOT translated: `_scrub_ansi_settings` on its general argument (str / int / AnsiSetting / AnsiFormat member /
  list / tuple, nested).  It calls itself through a `for` loop on a dynamically typed, possibly cyclic value and
  detects cycles by `id()`; the model represents that by the constructor `SArg.selfRef`, not by identities, so
  there is no faithful statement-by-statement image of `id(setting) in parsed_ids`.  What is translated of it is
  the instance for `settings : List[AnsiSetting]` (`Gen.scrubSettingsObjsCode`): with that static type the
  `isinstance` chain is decided while translating, `id(settings)` is kept as an opaque value that is stored and
  never inspected, and the second half (the `while` that combines runs of ints) is translated in full.

  The three `re.search(<literal>, s)` are `Re.matchStart Gen.regex_parse_rgb_string_k s` (harness/pyre.py,
  C14c: equal to the model's `reRgb3/reRgb1/reColor`); `match.group(n)` is `Re.group caps n`.  What Python needs
  from the groups — groups 3, 5, 7 present, non-empty, hexadecimal digits only (so that `int(group, base)` is
  inside the modelled domain); groups 2, 4, 6 absent or non-empty (so that `16 if match.group(2) else 10` is
  the model's `.isSome`) — is proved from the matcher by Hoare triples over `Re.m` (`C14d.L.Trip`, `trip_seq`,
  `trip_cap_plus`, …, `trip_rgb3/rgb1/color`), for every string.

  * `C14d.L`: the triples; `Good need caps`; `intBase_group`, `truthy_group`, `component_dict`;
    `CopySpec`/`fold_copy`, `WalkSpec`/`walk_loop` (the two loops of `_scrub_ansi_settings`);
    `DirSpec`/`fold_dirs` (the loop of `_scrub_ansi_format_string`), `normName_code`, `parseRgb_ne_nil`,
    `table_ok` (every member: at most two settings, no empty text — decided over `Gen.formatTable`).
  * `C14d`: the theorems over `Gen.*`.
-/

-- some simp arguments are there for other shapes the source may take
set_option linter.unusedSimpArgs false

namespace C14d
namespace L
open Re ScrubL

/-! ### what a successful match says about the groups: Hoare triples for the matcher -/

/-- from captures with `P`, every call of the continuation gets captures with `Q` -/
def Trip (P : Caps → Prop) (r : Re) (Q : Caps → Prop) : Prop :=
  ∀ {α : Type} (s : Str) (caps : Caps) (k : Str → Caps → Option α) (a : α), P caps → m r s caps k = some a →
    ∃ rest caps', Q caps' ∧ k rest caps' = some a

theorem bindOk {α β : Type} (a : α) (f : α → Except Exc β) : (Except.ok a : Except Exc α).bind f = f a := rfl

theorem bindRet {α : Type} (x : Except Exc α) : x.bind (fun a => .ok a) = x := by cases x <;> rfl

theorem or_some {α : Type} {x y : Option α} {a : α} (h : x.or y = some a) : x = some a ∨ y = some a := by
  cases x with
  | none => right; simpa using h
  | some b => left; simpa using h

theorem trip_seq {P R Q : Caps → Prop} {a b : Re} (ha : Trip P a R) (hb : Trip R b Q) : Trip P (seq a b) Q := by
  intro α s caps k x hP h
  rw [m_seq] at h
  obtain ⟨mid, capsm, hR, h2⟩ := ha s caps _ x hP h
  exact hb mid capsm k x hR h2

theorem trip_opt {P Q : Caps → Prop} {r : Re} (hr : Trip P r Q) (hpq : ∀ c, P c → Q c) : Trip P (opt r) Q := by
  intro α s caps k x hP h
  rw [m_opt] at h
  rcases or_some h with h | h
  · exact hr s caps k x hP h
  · exact ⟨s, caps, hpq caps hP, h⟩

theorem trip_alt {P Q : Caps → Prop} {a b : Re} (ha : Trip P a Q) (hb : Trip P b Q) : Trip P (alt a b) Q := by
  intro α s caps k x hP h
  rw [m_alt] at h
  rcases or_some h with h | h
  · exact ha s caps k x hP h
  · exact hb s caps k x hP h

theorem trip_conseq {P P' Q Q' : Caps → Prop} {r : Re} (h : Trip P r Q) (hp : ∀ c, P' c → P c) (hq : ∀ c, Q c → Q' c) :
    Trip P' r Q' := by
  intro α s caps k x hP hm
  obtain ⟨rest, caps', hQ, hk⟩ := h s caps k x (hp caps hP) hm
  exact ⟨rest, caps', hq caps' hQ, hk⟩

theorem go_some {α : Type} (s : Str) (caps : Caps) (k : Str → Caps → Option α) (a : α) :
    ∀ n, m.go s caps k n = some a → ∃ j, j ≤ n ∧ k (s.drop j) caps = some a
  | 0, h => by rw [go_zero] at h; exact ⟨0, Nat.le_refl _, by simpa using h⟩
  | n + 1, h => by
    rw [go_succ] at h
    rcases or_some h with h | h
    · exact ⟨n + 1, Nat.le_refl _, h⟩
    · obtain ⟨j, hj, hk⟩ := go_some s caps k a n h
      exact ⟨j, Nat.le_succ_of_le hj, hk⟩

/-- a piece without groups leaves the captures alone: what it consumed, and the continuation's call -/
theorem m_cls_some {α : Type} {p : Char → Bool} {s : Str} {caps : Caps} {k : Str → Caps → Option α} {a : α}
    (h : m (cls p) s caps k = some a) : ∃ c rest, s = c :: rest ∧ p c = true ∧ k rest caps = some a := by
  cases s with
  | nil => rw [m_cls_nil] at h; cases h
  | cons c rest =>
    rw [m_cls_cons] at h
    by_cases hp : p c = true
    · rw [if_pos hp] at h; exact ⟨c, rest, rfl, hp, h⟩
    · rw [if_neg hp] at h; cases h

theorem mem_takeWhile (p : Char → Bool) : ∀ (l : Str) (c : Char), c ∈ l.takeWhile p → p c = true
  | [], c, h => by simp at h
  | d :: l, c, h => by
    rw [List.takeWhile_cons] at h
    by_cases hd : p d = true
    · rw [if_pos hd] at h
      rcases List.mem_cons.mp h with rfl | h
      · exact hd
      · exact mem_takeWhile p l c h
    · rw [if_neg hd] at h; simp at h

theorem m_star_some {α : Type} {p : Char → Bool} {s : Str} {caps : Caps} {k : Str → Caps → Option α} {a : α}
    (h : m (star p) s caps k = some a) : ∃ w rest, s = w ++ rest ∧ w.all p = true ∧ k rest caps = some a := by
  rw [m_star] at h
  obtain ⟨j, hj, hk⟩ := go_some s caps k a _ h
  refine ⟨s.take j, s.drop j, (List.take_append_drop j s).symm, ?_, hk⟩
  rw [List.all_eq_true]
  intro c hc
  have hpre : s.take j = (s.takeWhile p).take j := by
    conv => lhs; rw [← List.takeWhile_append_dropWhile (p := p) (l := s)]
    rw [List.take_append_of_le_length hj]
  rw [hpre] at hc
  exact mem_takeWhile p s c (List.mem_of_mem_take hc)

theorem m_plus_some {α : Type} {p : Char → Bool} {s : Str} {caps : Caps} {k : Str → Caps → Option α} {a : α}
    (h : m (plus p) s caps k = some a) :
    ∃ w rest, s = w ++ rest ∧ w ≠ [] ∧ w.all p = true ∧ k rest caps = some a := by
  unfold plus at h
  rw [m_seq] at h
  obtain ⟨c, s1, rfl, hp, h2⟩ := m_cls_some h
  obtain ⟨w, rest, rfl, hw, hk⟩ := m_star_some h2
  exact ⟨c :: w, rest, rfl, by simp, by simp [hp, hw], hk⟩

theorem m_lit_some {α : Type} : ∀ (p s : Str) (caps : Caps) (k : Str → Caps → Option α) (a : α),
    m (lit p) s caps k = some a → ∃ rest, s = p ++ rest ∧ k rest caps = some a
  | [], s, caps, k, a, h => by
    unfold lit at h; rw [m_eps] at h; exact ⟨s, rfl, h⟩
  | c :: p, s, caps, k, a, h => by
    unfold lit at h
    rw [m_seq] at h
    obtain ⟨d, s1, rfl, hd, h2⟩ := m_cls_some h
    obtain ⟨rest, rfl, hk⟩ := m_lit_some p s1 caps k a h2
    have : d = c := by simpa using hd
    exact ⟨rest, by rw [this]; rfl, hk⟩

/-- no group inside -/
def capFree : Re → Bool
  | .cls _ => true
  | .star _ => true
  | .opt r => capFree r
  | .cap _ _ => false
  | .seq a b => capFree a && capFree b
  | .alt a b => capFree a && capFree b
  | .eps => true
  | .eos => true

theorem capFree_some : ∀ (r : Re), capFree r = true → ∀ {α : Type} (s : Str) (caps : Caps) (k : Str → Caps → Option α) (a : α),
    m r s caps k = some a → ∃ w rest, s = w ++ rest ∧ k rest caps = some a
  | .cls p, _, _, s, caps, k, a, h => by
    obtain ⟨c, rest, rfl, _, hk⟩ := m_cls_some h; exact ⟨[c], rest, rfl, hk⟩
  | .star p, _, _, s, caps, k, a, h => by
    obtain ⟨w, rest, hs, _, hk⟩ := m_star_some h; exact ⟨w, rest, hs, hk⟩
  | .opt r, hf, _, s, caps, k, a, h => by
    rw [m_opt] at h
    rcases or_some h with h | h
    · exact capFree_some r hf s caps k a h
    · exact ⟨[], s, rfl, h⟩
  | .cap _ _, hf, _, _, _, _, _, _ => by simp [capFree] at hf
  | .seq x y, hf, _, s, caps, k, a, h => by
    simp only [capFree, Bool.and_eq_true] at hf
    rw [m_seq] at h
    obtain ⟨w1, mid, rfl, h2⟩ := capFree_some x hf.1 s caps _ a h
    obtain ⟨w2, rest, rfl, hk⟩ := capFree_some y hf.2 mid caps k a h2
    exact ⟨w1 ++ w2, rest, by simp, hk⟩
  | .alt x y, hf, _, s, caps, k, a, h => by
    simp only [capFree, Bool.and_eq_true] at hf
    rw [m_alt] at h
    rcases or_some h with h | h
    · exact capFree_some x hf.1 s caps k a h
    · exact capFree_some y hf.2 s caps k a h
  | .eps, _, _, s, caps, k, a, h => by rw [m_eps] at h; exact ⟨[], s, rfl, h⟩
  | .eos, _, _, s, caps, k, a, h => by
    rw [m_eos] at h
    split at h
    · exact ⟨[], s, rfl, h⟩
    · cases h

theorem trip_free {P : Caps → Prop} {r : Re} (hf : capFree r = true) : Trip P r P := by
  intro α s caps k a hP h
  obtain ⟨w, rest, _, hk⟩ := capFree_some r hf s caps k a h
  exact ⟨rest, caps, hP, hk⟩

theorem take_consumed (w rest : Str) : (w ++ rest).take ((w ++ rest).length - rest.length) = w := by
  simp

/-- a group over a piece without groups: it holds what the piece consumed (anything) -/
theorem trip_cap_free {P Q : Caps → Prop} {n : Nat} {r : Re} (hf : capFree r = true)
    (hq : ∀ c w, P c → Q ((n, w) :: c.filter (·.1 != n))) : Trip P (cap n r) Q := by
  intro α s caps k a hP h
  rw [m_cap] at h
  obtain ⟨w, rest, _, hk⟩ := capFree_some r hf s caps _ a h
  exact ⟨rest, _, hq caps _ hP, hk⟩

/-- a group over a literal holds the literal -/
theorem trip_cap_lit {P Q : Caps → Prop} {n : Nat} {p : Str}
    (hq : ∀ c, P c → Q ((n, p) :: c.filter (·.1 != n))) : Trip P (cap n (lit p)) Q := by
  intro α s caps k a hP h
  rw [m_cap] at h
  obtain ⟨rest, rfl, hk⟩ := m_lit_some p s caps _ a h
  rw [take_consumed] at hk
  exact ⟨rest, _, hq caps hP, hk⟩

/-- a group over `[class]+` holds a non-empty string of the class -/
theorem trip_cap_plus {P Q : Caps → Prop} {n : Nat} {p : Char → Bool}
    (hq : ∀ c w, P c → w ≠ [] → w.all p = true → Q ((n, w) :: c.filter (·.1 != n))) : Trip P (cap n (plus p)) Q := by
  intro α s caps k a hP h
  rw [m_cap] at h
  obtain ⟨w, rest, rfl, hne, hall, hk⟩ := m_plus_some h
  rw [take_consumed] at hk
  exact ⟨rest, _, hq caps w hP hne hall, hk⟩

theorem trip_matchStart {P Q : Caps → Prop} {r : Re} (h : Trip P r Q) (h0 : P []) {s : Str} {caps : Caps}
    (hm : matchStart r s = some caps) : Q caps := by
  obtain ⟨_, caps', hQ, hk⟩ := h s [] (fun _ caps => some caps) caps h0 hm
  simp only [Option.some.injEq] at hk
  exact hk ▸ hQ

/-! ### the groups of the three patterns of `_parse_rgb_string` -/

/-- groups 2, 4, 6 (`(0x)?`) are absent or not empty; groups 3, 5, 7 (`([0-9a-fA-F]+)`) are absent or non-empty
    strings of hexadecimal digits; the groups in `need` are present -/
def Good (need : List Nat) (caps : Caps) : Prop :=
  (∀ n ∈ [2, 4, 6], ∀ w, group caps n = some w → w ≠ []) ∧
  (∀ n ∈ [3, 5, 7], ∀ w, group caps n = some w → w ≠ [] ∧ w.all Scrub.isHex = true) ∧
  (∀ n ∈ need, (group caps n).isSome = true)

theorem find_filter_ne (mm n : Nat) (h : n ≠ mm) : ∀ caps : Caps,
    (caps.filter (·.1 != mm)).find? (·.1 == n) = caps.find? (·.1 == n)
  | [] => rfl
  | (k, w) :: caps => by
    have ih := find_filter_ne mm n h caps
    by_cases hk : k = mm
    · subst hk
      have hkn : (k == n) = false := by simp; exact fun e => h e.symm
      simp [List.filter_cons, List.find?_cons, hkn, ih]
    · by_cases hn : k = n
      · subst hn; simp [List.filter_cons, List.find?_cons, h]
      · simp [List.filter_cons, List.find?_cons, hk, hn, ih]

theorem group_cons (mm : Nat) (w : Str) (caps : Caps) (n : Nat) :
    group ((mm, w) :: caps.filter (·.1 != mm)) n = if n = mm then some w else group caps n := by
  unfold group
  by_cases h : n = mm
  · subst h; simp
  · have h2 : ((mm, w).1 == n) = false := by simp; exact fun e => h e.symm
    rw [List.find?_cons_of_neg (by simp [h2]), if_neg h, find_filter_ne mm n h]

theorem good_nil : Good [] [] := ⟨fun _ _ _ h => by simp [group] at h, fun _ _ _ h => by simp [group] at h, fun _ h => by simp at h⟩

theorem good_weaken {mm : Nat} {need : List Nat} {c : Caps} (h : Good (mm :: need) c) : Good need c :=
  ⟨h.1, h.2.1, fun n hn => h.2.2 n (List.mem_cons_of_mem _ hn)⟩

theorem good_cons {need : List Nat} {c : Caps} (mm : Nat) (w : Str) (h : Good need c)
    (h1 : mm ∈ [2, 4, 6] → w ≠ []) (h2 : mm ∈ [3, 5, 7] → w ≠ [] ∧ w.all Scrub.isHex = true) :
    Good (mm :: need) ((mm, w) :: c.filter (·.1 != mm)) := by
  refine ⟨?_, ?_, ?_⟩
  · intro n hn v hv
    rw [group_cons] at hv
    by_cases e : n = mm
    · rw [if_pos e] at hv; cases hv; exact h1 (e ▸ hn)
    · rw [if_neg e] at hv; exact h.1 n hn v hv
  · intro n hn v hv
    rw [group_cons] at hv
    by_cases e : n = mm
    · rw [if_pos e] at hv; cases hv; exact h2 (e ▸ hn)
    · rw [if_neg e] at hv; exact h.2.1 n hn v hv
  · intro n hn
    rw [group_cons]
    by_cases e : n = mm
    · rw [if_pos e]; rfl
    · rw [if_neg e]
      rcases List.mem_cons.mp hn with hn | hn
      · exact absurd hn e
      · exact h.2.2 n hn

theorem trip_prefix (need : List Nat) : Trip (Good need) Scrub.rePrefix (Good need) := by
  unfold Scrub.rePrefix
  exact trip_cap_free (by decide) (fun c w h => good_weaken (good_cons 1 w h (fun h' => absurd h' (by decide)) (fun h' => absurd h' (by decide))))

theorem trip_num (need : List Nat) (a b : Nat) (hab : a ∉ [3, 5, 7]) (hba : b ∉ [2, 4, 6]) :
    Trip (Good need) (Scrub.reNum a b) (Good (b :: need)) := by
  unfold Scrub.reNum
  refine trip_seq (R := Good need) (trip_opt (trip_cap_lit ?_) (fun c h => h)) (trip_cap_plus ?_)
  · intro c h
    exact good_weaken (good_cons a _ h (fun _ => by decide) (fun h' => absurd h' hab))
  · intro c w h hne hall
    exact good_cons b w h (fun h' => absurd h' hba) (fun _ => ⟨hne, hall⟩)

/-- one more piece of a pattern -/
macro "trip_step" : tactic => `(tactic| first
  | exact trip_free (by decide)
  | refine trip_seq (trip_prefix _) ?_
  | refine trip_seq (trip_num _ _ _ (by decide) (by decide)) ?_
  | refine trip_seq (trip_free (by decide)) ?_)

theorem trip_rgb3 : Trip (Good []) Scrub.reRgb3 (Good [7, 5, 3]) := by
  unfold Scrub.reRgb3
  repeat trip_step

theorem trip_rgb1 : Trip (Good []) Scrub.reRgb1 (Good [3]) := by
  unfold Scrub.reRgb1
  repeat trip_step

theorem trip_color : Trip (Good []) Scrub.reColor (Good [3]) := by
  unfold Scrub.reColor
  repeat trip_step

/-! ### the primitives on such groups -/

theorem truthy_group {need : List Nat} {caps : Caps} (h : Good need caps) (n : Nat) (hn : n ∈ [2, 4, 6]) :
    PyParse.truthyOptStr (group caps n) = (group caps n).isSome := by
  cases hg : group caps n with
  | none => rfl
  | some w =>
    have := h.1 n hn w hg
    cases w with
    | nil => exact absurd rfl this
    | cons c t => rfl

/-- `int(match.group(n), 16 if … else 10)` on a group of hexadecimal digits is the model's `numVal` -/
theorem intBase_group {need : List Nat} {caps : Caps} (h : Good need caps) (n : Nat) (hn : n ∈ [3, 5, 7]) (hp : n ∈ need) (b : Bool) :
    PyParse.intBase (group caps n) (if b = true then (16 : Int) else (10 : Int)) =
      .ok ((Scrub.numVal ((group caps n).getD []) b).map (fun v => (v : Int))) := by
  have hs := h.2.2 n hp
  cases hg : group caps n with
  | none => rw [hg] at hs; cases hs
  | some w =>
    obtain ⟨hne, hall⟩ := h.2.1 n hn w hg
    have hemp : w.isEmpty = false := by cases w with | nil => exact absurd rfl hne | cons _ _ => rfl
    unfold PyParse.intBase Scrub.numVal
    cases b <;> simp [hemp, hall]
    split <;> simp

theorem dict_generic (a b c d p : Str) (hab : a ≠ b) (hac : a ≠ c) (hbc : b ≠ c) :
    PyParse.dictGetD [(a, 3), (b, 2), (c, 1), (d, 0)] (some p) 0 =
      (if p == c then 1 else if p == b then 2 else if p == a then 3 else 0) := by
  unfold PyParse.dictGetD
  by_cases h1 : p = a
  · subst h1; simp [List.find?_cons, hab, hac]
  · have g1 : ¬ (a = p) := fun e => h1 e.symm
    by_cases h2 : p = b
    · subst h2; simp [List.find?_cons, g1, hbc]
    · have g2 : ¬ (b = p) := fun e => h2 e.symm
      by_cases h3 : p = c
      · subst h3; simp [List.find?_cons, g1, g2]
      · have g3 : ¬ (c = p) := fun e => h3 e.symm
        by_cases h4 : p = d
        · subst h4; simp [List.find?_cons, g1, g2, g3, h1, h2, h3]
        · have g4 : ¬ (d = p) := fun e => h4 e.symm
          simp [List.find?_cons, g1, g2, g3, g4, h1, h2, h3]

/-- `component_dict.get(match.group(1), ColorComponentType.FOREGROUND)` is the model's `component` -/
theorem component_dict (k : Option Str) :
    PyParse.dictGetD [("dul_".toList, 3), ("ul_".toList, 2), ("bg_".toList, 1), ("fg_".toList, 0)] k 0 = Scrub.component k := by
  cases k with
  | none => rfl
  | some p =>
    rw [dict_generic _ _ _ _ p (by decide) (by decide) (by decide)]
    rfl

theorem ite_notb {α : Type} (b : Bool) (x y : α) : (if (!b) = true then x else y) = if b = true then y else x := by
  cases b <;> rfl

theorem clamp (r : Nat) : (min (255 : Int) (max 0 (r : Int))).toNat = min 255 r := by omega
theorem clamp' (r : Nat) : (min (255 : Int) (r : Int)).toNat = min 255 r := by omega
theorem natCast_not_neg (v : Nat) : ¬ ((v : Int) < 0) := by omega

/-! ### `_scrub_ansi_settings` on a list of AnsiSettings: the loops -/

theorem while_done {σ : Type} {cond : σ → Except Exc Bool} {body : σ → Except Exc σ} {st : σ}
    (h : cond st = .ok false) (fuel : Nat) : PyParse.whileM fuel cond body st = .ok st := by
  cases fuel <;> simp [PyParse.whileM, h, bindOk]

theorem while_step {σ : Type} {cond : σ → Except Exc Bool} {body : σ → Except Exc σ} {st st' : σ}
    (hc : cond st = .ok true) (hb : body st = .ok st') (fuel : Nat) :
    PyParse.whileM (fuel + 1) cond body st = PyParse.whileM fuel cond body st' := by
  simp [PyParse.whileM, hc, hb, bindOk]

/-- a round of the first loop: the setting (copied or not) is appended -/
def CopySpec (mu : Bool) (step : List Str → Str → Except Exc (List Str)) : Prop :=
  ∀ out t, (mu = true → t ≠ []) → step out t = .ok (out ++ [t])

theorem fold_copy {mu : Bool} {step : List Str → Str → Except Exc (List Str)} (h : CopySpec mu step) :
    ∀ (ts out : List Str), (mu = true → ∀ t ∈ ts, t ≠ []) → List.foldlM step out ts = .ok (out ++ ts)
  | [], out, _ => by simp; rfl
  | t :: ts, out, hne => by
    rw [List.foldlM_cons, h out t (fun hm => hne hm t (by simp))]
    show List.foldlM step (out ++ [t]) ts = _
    rw [fold_copy h ts _ (fun hm x hx => hne hm x (by simp [hx]))]
    simp

/-- the `while` over `settings_out` when it holds no int: state `(idx, current_ints, settings_out)`, every
    round only advances `idx` -/
def WalkSpec (out : List Str) (cond : Int × List Code × List Str → Except Exc Bool)
    (body : Int × List Code × List Str → Except Exc (Int × List Code × List Str)) : Prop :=
  ∀ i : Nat, i ≤ out.length →
    cond ((i : Int), [], out) = .ok (decide (i < out.length)) ∧
    (i < out.length → body ((i : Int), [], out) = .ok (((i + 1 : Nat) : Int), [], out))

theorem walk_loop {out : List Str} {cond : Int × List Code × List Str → Except Exc Bool}
    {body : Int × List Code × List Str → Except Exc (Int × List Code × List Str)} (h : WalkSpec out cond body) :
    ∀ (n i fuel : Nat), i + n = out.length → n ≤ fuel →
      PyParse.whileM fuel cond body ((i : Int), [], out) = .ok ((out.length : Int), [], out)
  | 0, i, fuel, hi, _ => by
    have hc := (h i (by omega)).1
    have : decide (i < out.length) = false := by simp; omega
    rw [this] at hc
    rw [while_done hc]
    have : i = out.length := by omega
    rw [this]
  | n + 1, i, fuel, hi, hf => by
    obtain ⟨hc, hb⟩ := h i (by omega)
    have hlt : i < out.length := by omega
    have : decide (i < out.length) = true := by simp; omega
    rw [this] at hc
    obtain ⟨f, rfl⟩ : ∃ f, fuel = f + 1 := ⟨fuel - 1, by omega⟩
    rw [while_step hc (hb hlt)]
    exact walk_loop h n (i + 1) f (by omega) (by omega)

/-! ### `_scrub_ansi_format_string` -/

/-- the model's errors as outcomes of the generated functions -/
def liftErr {α : Type} : Except PyErr α → Except Exc α
  | .ok a => .ok a
  | .error e => .error (.py e)

/-- one `format` of the string: what a round of the loop has to do -/
def DirSpec (step : List SOut → Str → Except Exc (List SOut)) : Prop :=
  ∀ acc fmt, step acc fmt = liftErr ((Scrub.scrubDirective fmt).map (fun r => acc ++ r))

theorem fold_dirs {step : List SOut → Str → Except Exc (List SOut)} (h : DirSpec step) :
    ∀ (fmts : List Str) (acc : List SOut),
      List.foldlM step acc fmts =
        liftErr (fmts.foldlM (fun acc fmt => do
            let r ← Scrub.scrubDirective fmt
            pure (acc ++ r)) acc)
  | [], acc => rfl
  | fmt :: fmts, acc => by
    rw [List.foldlM_cons, List.foldlM_cons, h]
    cases hd : Scrub.scrubDirective fmt with
    | error e => rfl
    | ok r =>
      show List.foldlM step (acc ++ r) fmts = _
      rw [fold_dirs h fmts]
      rfl

theorem normName_code (f : Str) :
    PyParse.replaceChar (PyParse.replaceChar (PyParse.upper f) ' ' '_') '-' '_' = Scrub.normName f := by
  unfold PyParse.replaceChar PyParse.upper Scrub.normName
  rw [List.map_map, List.map_map]
  apply List.map_congr_left
  intro c _
  simp only [Function.comp]
  by_cases h1 : Scrub.upperAscii c = ' '
  · simp [h1]
  · by_cases h2 : Scrub.upperAscii c = '-'
    · simp [h1, h2]
    · simp [h1, h2]

theorem getIdx_mid {α : Type} (A : List α) (c : α) (B : List α) :
    Py.getIdx (A ++ c :: B) (A.length : Int) = .ok c := by
  unfold Py.getIdx
  have h1 : ¬ ((A.length : Int) < 0) := by omega
  simp [h1]

/-- another way of writing `not s` -/
theorem len_beq_zero {α : Type} (l : List α) : ((l.length : Int) == 0) = l.isEmpty := by
  cases l with
  | nil => rfl
  | cons a t =>
    have h : ¬ (((a :: t).length : Int) = 0) := by simp only [List.length_cons]; omega
    simp only [List.isEmpty_cons, beq_eq_false_iff_ne, ne_eq, h, not_false_eq_true]

theorem slice_from1 {α : Type} (l : List α) : Py.listSlice l (some (1 : Int)) none = l.drop 1 := by
  unfold Py.listSlice Py.listIdx
  cases l with
  | nil => rfl
  | cons a t => simp

theorem lookup_member (name : Str) : Scrub.lookupFormat name = (PyParse.formatMember name).map (·.2) := rfl

theorem colorSettings_ne_nil (comp : Nat) (b : Bool) (args : List Nat) : Scrub.colorSettings comp b args ≠ [] := by
  unfold Scrub.colorSettings
  simp only []
  split
  · simp
  · split <;> simp

/-- what `_parse_rgb_string` returns is never an empty list (`if not rgb_format_list` then means `None`) -/
theorem parseRgb_ne_nil {s : Str} {ts : List Str} (h : Scrub.parseRgbString s = some (.ok ts)) : ts ≠ [] := by
  unfold Scrub.parseRgbString at h
  split at h
  · simp only [] at h
    split at h
    · simp only [Option.some.injEq, Except.ok.injEq] at h; rw [← h]; exact colorSettings_ne_nil _ _ _
    · simp at h
  · split at h
    · simp only [] at h
      split at h
      · simp only [Option.some.injEq, Except.ok.injEq] at h; rw [← h]; exact colorSettings_ne_nil _ _ _
      · simp at h
    · split at h
      · simp only [] at h
        split at h
        · simp only [Option.some.injEq, Except.ok.injEq] at h; rw [← h]; exact colorSettings_ne_nil _ _ _
        · simp at h
      · simp at h

/-- every member has at most two settings, none with an empty text -/
def tableOk (l : List (Str × List Str)) : Bool := l.all (fun r => decide (r.2.length ≤ 2) && r.2.all (fun t => !t.isEmpty))

set_option maxRecDepth 100000 in
theorem table_ok : tableOk Gen.formatTable = true := by scrubl_table_decide

theorem member_ok {name : Str} {r : Str × List Str} (h : PyParse.formatMember name = some r) :
    r.2.length ≤ 2 ∧ ∀ t ∈ r.2, t ≠ [] := by
  have hm : r ∈ Gen.formatTable := List.mem_of_find?_eq_some h
  have := table_ok
  unfold tableOk at this
  rw [List.all_eq_true] at this
  have hr := this r hm
  simp only [Bool.and_eq_true, decide_eq_true_eq, List.all_eq_true, Bool.not_eq_true'] at hr
  refine ⟨hr.1, fun t ht e => ?_⟩
  have := hr.2 t ht
  rw [e] at this
  simp at this

end L
open L

/-- the model's outcomes of `_parse_rgb_string` as outcomes of the generated function: `None`, a list of
    settings, ValueError -/
def rgbOutcome : Option (Except PyErr (List Str)) → Except Exc (Option (List Str))
  | none => .ok none
  | some (.ok ts) => .ok (some ts)
  | some (.error e) => .error (.py e)

theorem translated : (Gen.scrubFormatIntCodeOk && Gen.parseRgbStringCodeOk) = true := by decide

/-- THE GENERATED `_scrub_ansi_format_int`: ValueError on a negative value, else the value -/
theorem format_int_is_code (i : Int) :
    Gen.scrubFormatIntCode i = if i < 0 then .error (.py .valueError) else .ok i := by
  unfold Gen.scrubFormatIntCode
  by_cases h : i < 0 <;> simp [h]

/-- THE GENERATED `_parse_rgb_string` IS THE MODEL'S `parseRgbString`, with the error class: for every string,
    the same `None` / list of settings / ValueError; `int(None, …)` (TypeError), digits outside the modelled
    domain of `int(…, base)` and negative colour values never occur -/
theorem parse_rgb_is_code (s : Str) : Gen.parseRgbStringCode s = rgbOutcome (Scrub.parseRgbString s) := by
  unfold Gen.parseRgbStringCode Scrub.parseRgbString
  simp only [C14c.rgb3_is_code, C14c.rgb1_is_code, C14c.color256_is_code]
  cases h3 : Re.matchStart Scrub.reRgb3 s with
  | some caps =>
    have hg := trip_matchStart trip_rgb3 good_nil h3
    simp only [ite_notb, truthy_group hg 2 (by decide), truthy_group hg 4 (by decide), truthy_group hg 6 (by decide),
      intBase_group hg 3 (by decide) (by decide), intBase_group hg 5 (by decide) (by decide),
      intBase_group hg 7 (by decide) (by decide), bindOk, component_dict]
    cases Scrub.numVal ((Re.group caps 3).getD []) (Re.group caps 2).isSome <;>
      cases Scrub.numVal ((Re.group caps 5).getD []) (Re.group caps 4).isSome <;>
      cases Scrub.numVal ((Re.group caps 7).getD []) (Re.group caps 6).isSome <;>
      simp [rgbOutcome, PyParse.formatRgb3, clamp, clamp']
  | none =>
    simp only []
    cases h1 : Re.matchStart Scrub.reRgb1 s with
    | some caps =>
      have hg := trip_matchStart trip_rgb1 good_nil h1
      simp only [ite_notb, truthy_group hg 2 (by decide), intBase_group hg 3 (by decide) (by decide), bindOk, component_dict]
      cases Scrub.numVal ((Re.group caps 3).getD []) (Re.group caps 2).isSome <;>
        simp [rgbOutcome, PyParse.formatRgb1, bindOk, natCast_not_neg]
    | none =>
      simp only []
      cases hc : Re.matchStart Scrub.reColor s with
      | some caps =>
        have hg := trip_matchStart trip_color good_nil hc
        simp only [ite_notb, truthy_group hg 2 (by decide), intBase_group hg 3 (by decide) (by decide), bindOk, component_dict]
        cases Scrub.numVal ((Re.group caps 3).getD []) (Re.group caps 2).isSome <;>
          simp [rgbOutcome, PyParse.formatColor256, bindOk, natCast_not_neg]
      | none => rfl

/-- `_scrub_ansi_settings(<list of AnsiSettings>, make_unique)` returns the settings: with `make_unique` they are
    copied (`AnsiSetting(setting)`: ValueError on an empty text, which no AnsiSetting holds), no int is among
    them, so the `while` only walks over the list (one round per setting: `fuel ≥ len`) -/
theorem scrub_objs_is_code (fuel : Nat) (ts : List Str) (mu : Bool) (hf : ts.length ≤ fuel)
    (hne : mu = true → ∀ t ∈ ts, t ≠ []) : Gen.scrubSettingsObjsCode fuel ts mu = .ok ts := by
  unfold Gen.scrubSettingsObjsCode
  simp only []
  rw [fold_copy (mu := mu) ?cspec ts [] hne]
  case cspec =>
    intro out t ht
    cases mu with
    | false => simp
    | true =>
      have := ht rfl
      cases t with
      | nil => exact absurd rfl this
      | cons c r => simp [PyParse.settingOfStr, PyParse.mkSetting, bindOk]
  simp only [bindOk, List.nil_append]
  rw [show ((0 : Int), ([] : List Code), ts) = (((0 : Nat) : Int), ([] : List Code), ts) from rfl,
    walk_loop (out := ts) ?wspec ts.length 0 fuel (by omega) hf]
  case wspec =>
    intro i hi
    constructor
    · by_cases h : i < ts.length <;> simp [h]
    · intro hlt
      obtain ⟨A, c, B, hts, hA⟩ : ∃ A c B, ts = A ++ c :: B ∧ A.length = i :=
        ⟨ts.take i, ts[i], ts.drop (i + 1), by simp, by simp; omega⟩
      have hg : Py.getIdx ts (i : Int) = .ok c := by
        rw [hts, ← hA]; exact getIdx_mid A c B
      simp [hg, bindOk]
  simp [bindOk]

theorem translated_format_string : (Gen.scrubSettingsObjsCodeOk && Gen.scrubFormatStringCodeOk) = true := by decide

/-- THE GENERATED `_scrub_ansi_format_string` IS THE MODEL'S `scrubString`, with the error class, for every string
    and both values of `make_unique`, given fuel for the two settings a member has at most -/
theorem format_string_is_code (fuel : Nat) (s : Str) (mu : Bool) (hf : 2 ≤ fuel) :
    Gen.scrubFormatStringCode fuel s mu = liftErr (Scrub.scrubString s) := by
  unfold Gen.scrubFormatStringCode Scrub.scrubString
  try simp only [len_beq_zero]
  cases s with
  | nil => rfl
  | cons c0 r =>
    by_cases hb : c0 = '['
    · subst hb
      have hsl : Py.listSlice ('[' :: r) (some (1 : Int)) none = r := by
        have := slice_from1 ('[' :: r)
        simpa using this
      cases r with
      | nil => simp [hsl, Py.startsWith, PyParse.settingOfStr, PyParse.mkSetting, liftErr]; rfl
      | cons c1 r1 => simp [hsl, Py.startsWith, PyParse.settingOfStr, PyParse.mkSetting, liftErr, bindOk]
    · have hst : Py.startsWith (c0 :: r) "[".toList = false := by simp [Py.startsWith, hb]
      have hsplit : PyParse.split (c0 :: r) Gen.ansiSep = .ok (Py.splitOnChar ';' (c0 :: r)) := by
        have h : Gen.ansiSep = [';'] := by decide
        rw [h]; rfl
      simp only [List.isEmpty_cons, Bool.not_false, Bool.not_true, Bool.false_eq_true, ↓reduceIte, hst, hsplit, bindOk]
      rw [fold_dirs ?dspec]
      case dspec =>
        intro acc fmt
        simp only [normName_code]
        unfold Scrub.scrubDirective
        rw [lookup_member]
        cases hm : PyParse.formatMember (Scrub.normName fmt) with
        | some r =>
          obtain ⟨hlen, hne⟩ := member_ok hm
          simp only [Option.map_some, PyParse.getAttr, bindOk]
          rw [scrub_objs_is_code fuel r.2 mu (by omega) (fun _ => hne)]
          rfl
        | none =>
          simp only [Option.map_none, parse_rgb_is_code]
          cases hp : Scrub.parseRgbString fmt with
          | none =>
            simp only [rgbOutcome, bindOk, Py.truthyOptList, format_int_is_code]
            cases fmt with
            | nil => simp [liftErr, Except.map]
            | cons f0 fr =>
              cases Py.int (f0 :: fr) with
              | none => simp [liftErr, Except.map]
              | some i =>
                by_cases hi : i < 0
                · simp [hi, liftErr, Except.map, bindOk]; rfl
                · simp [hi, liftErr, Except.map, bindOk]
          | some res =>
            cases res with
            | error e => rfl
            | ok ts =>
              have hts := parseRgb_ne_nil hp
              cases ts with
              | nil => exact absurd rfl hts
              | cons t0 tr => simp [rgbOutcome, bindOk, Py.truthyOptList, Py.optGet, liftErr, Except.map]
      rw [bindRet]
      congr 1
      split
      · rename_i heq; cases heq
      · rename_i heq; injection heq with h1 _; exact absurd h1 hb
      · rfl

/-! ## Only the model's exceptions -/

theorem format_int_only_valueError (i : Int) (err : Exc) (h : Gen.scrubFormatIntCode i = .error err) :
    err = .py .valueError := by
  rw [format_int_is_code] at h
  split at h <;> cases h; rfl

theorem parse_rgb_only_py (s : Str) (err : Exc) (h : Gen.parseRgbStringCode s = .error err) : ∃ e, err = .py e := by
  rw [parse_rgb_is_code] at h
  cases hp : Scrub.parseRgbString s with
  | none => rw [hp] at h; cases h
  | some r => rw [hp] at h; cases r with
    | ok _ => cases h
    | error e => cases h; exact ⟨e, rfl⟩

theorem format_string_only_py (fuel : Nat) (s : Str) (mu : Bool) (hf : 2 ≤ fuel) (err : Exc)
    (h : Gen.scrubFormatStringCode fuel s mu = .error err) : ∃ e, err = .py e := by
  rw [format_string_is_code fuel s mu hf] at h
  cases hs : Scrub.scrubString s with
  | ok _ => rw [hs] at h; cases h
  | error e => rw [hs] at h; cases h; exact ⟨e, rfl⟩

theorem scrub_objs_never_raises (fuel : Nat) (ts : List Str) (mu : Bool) (hf : ts.length ≤ fuel)
    (hne : mu = true → ∀ t ∈ ts, t ≠ []) (err : Exc) : Gen.scrubSettingsObjsCode fuel ts mu ≠ .error err := by
  rw [scrub_objs_is_code fuel ts mu hf hne]; intro e; cases e

/-! ## Concrete values -/

private def rgb (s : String) := Gen.parseRgbStringCode s.toList
private def fs (s : String) (mu : Bool := false) := Gen.scrubFormatStringCode 2 s.toList mu

example : rgb "rgb(1,2,3)" = .ok (some ["38;2;1;2;3".toList]) := by decide +kernel
example : rgb "bg_rgb(0x10, 0xff, 300)" = .ok (some ["48;2;16;255;255".toList]) := by decide +kernel
example : rgb "dul_rgb(123456)" = .ok (some ["21".toList, "58;2;1;226;64".toList]) := by decide +kernel
example : rgb "fg_colour256(0x1f)" = .ok (some ["38;5;31".toList]) := by decide +kernel
/-- hexadecimal digits without `0x`: ValueError; no pattern: None -/
example : rgb "ul_rgb(ff,1,2)" = .error (.py .valueError) := by decide +kernel
example : rgb "rgb(1,2" = .ok none := by decide +kernel
example : rgb "red" = .ok none := by decide +kernel

example : fs "" = .ok [] := by decide +kernel
example : fs "[1;2" = .ok [.setting "1;2".toList] := by decide +kernel
example : fs "[" = .error (.py .valueError) := by decide +kernel
/- directives that go through `AnsiFormat[...]` (a scan of the 800 names of `Gen.formatTable`, each a string literal
   the kernel has to decode) are left to the theorem: `fs s = liftErr (Scrub.scrubString s)`, and to the examples
   of C14 on the model's side -/

/-- the outcomes the theorems exclude are real ones of the primitives -/
example : PyParse.intBase none 10 = .error (.py .typeError) := by decide
example : PyParse.intBase (some "+1".toList) 10 = .error .outside := by decide
example : PyParse.formatColor256 (-1) 0 = .error .outside := by decide
example : PyParse.getAttr (none : Option (Str × List Str)) = .error .outside := by decide
example : Gen.scrubSettingsObjsCode 1 ["1".toList, "31".toList] false = .error .outside := by decide +kernel
example : Gen.scrubSettingsObjsCode 2 ["1".toList, []] true = .error (.py .valueError) := by decide +kernel

end C14d

#print axioms C14d.translated
#print axioms C14d.translated_format_string
#print axioms C14d.format_int_is_code
#print axioms C14d.parse_rgb_is_code
#print axioms C14d.scrub_objs_is_code
#print axioms C14d.format_string_is_code
#print axioms C14d.format_string_only_py
#print axioms C14d.parse_rgb_only_py
