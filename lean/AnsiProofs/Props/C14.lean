import AnsiProofs.Lemmas.Scrub
/-
  Property C14 — an AnsiFormat member, its name in any letter case with spaces or hyphens for
  underscores, its integer code(s) given as ints / as a `;`-separated string / verbatim after `[`,
  the rgb()/color256() helper results and their string forms, several `;`-separated directives in
  one string, and nested lists of these all yield the same settings; malformed input is rejected
  with ValueError / TypeError.

  Model: `Scrub.scrub : SArg → Except PyErr (List Str)` (`_scrub_ansi_settings`; the result is the
  list of the texts of the AnsiSettings produced, in order).  `Gen.formatTable` is
  `AnsiFormat.__members__` as (name, texts of `member.ansi_settings`).

  Facts about the generated table are proved by one linear Boolean pass each, decided in the kernel
  (`scrubl_table_decide`), and lifted by generic lemmas of `AnsiProofs/Lemmas/Scrub.lean`.
-/
open ScrubL

namespace C14

/-! ## T1 — the member table: sorted, name alphabet, lookup is total on members -/

set_option maxRecDepth 100000 in
/-- adjacent names are strictly ascending (lexicographic order on code points, `ScrubL.ltStr`) -/
theorem format_table_sorted : ascKeys Gen.formatTable = true := by scrubl_table_decide

set_option maxRecDepth 100000 in
theorem format_names_charset_check :
    Gen.formatTable.all (fun r => !r.1.isEmpty && r.1.all isNameChar) = true := by scrubl_table_decide

/-- every member name is a non-empty string over `[A-Z0-9_]` -/
theorem format_names_charset : ∀ r ∈ Gen.formatTable, r.1 ≠ [] ∧
    ∀ c ∈ r.1, ('A' ≤ c ∧ c ≤ 'Z') ∨ ('0' ≤ c ∧ c ≤ '9') ∨ c = '_' := by
  intro r hr
  have h := format_names_charset_check
  simp only [List.all_eq_true, Bool.and_eq_true, Bool.not_eq_true', List.isEmpty_eq_false_iff] at h
  refine ⟨(h r hr).1, fun c hc => ?_⟩
  have := (h r hr).2 c hc
  simpa [isNameChar, or_assoc] using this

/-- `AnsiFormat[name]` of a member's name is that member (no name occurs twice) -/
theorem name_lookup_total : ∀ r ∈ Gen.formatTable, Scrub.lookupFormat r.1 = some r.2 := by
  intro r hr
  unfold Scrub.lookupFormat
  rw [find?_of_ascKeys format_table_sorted r hr]; rfl

set_option maxRecDepth 100000 in
example : ("BOLD".toList, ["1".toList]) ∈ Gen.formatTable :=
  mem_table_of_contains (by scrubl_table_decide)

/-! ## T2 — spelling of names: letter case, spaces and hyphens for underscores -/

/-- how one character of a name may be written -/
def VarChar (n c : Char) : Prop :=
  (('A' ≤ n ∧ n ≤ 'Z') → c = n ∨ c.toNat = n.toNat + 32) ∧     -- the letter in either case
  (n = '_' → c = '_' ∨ c = '-' ∨ c = ' ') ∧                     -- underscore, hyphen or space
  (('0' ≤ n ∧ n ≤ '9') → c = n)                                  -- digits unchanged

/-- `v` is a spelling of `name`: same length, position-wise `VarChar` -/
def Variant : Str → Str → Prop
  | [], [] => True
  | n :: ns, c :: cs => VarChar n c ∧ Variant ns cs
  | [], _ :: _ => False
  | _ :: _, [] => False

instance (n c : Char) : Decidable (VarChar n c) := by unfold VarChar; exact inferInstance

instance decVariant : (a b : Str) → Decidable (Variant a b)
  | [], [] => isTrue trivial
  | n :: ns, c :: cs =>
    have := decVariant ns cs
    inferInstanceAs (Decidable (VarChar n c ∧ Variant ns cs))
  | [], _ :: _ => isFalse id
  | _ :: _, [] => isFalse id

/-- `format.upper().replace(' ', '_').replace('-', '_')` maps every spelling back to the name -/
theorem spelling_norm : ∀ (name v : Str), Variant name v →
    (∀ c ∈ name, ('A' ≤ c ∧ c ≤ 'Z') ∨ ('0' ≤ c ∧ c ≤ '9') ∨ c = '_') → Scrub.normName v = name
  | [], [], _, _ => rfl
  | n :: ns, c :: cs, ⟨h, ht⟩, hc => by
    have hn : isNameChar n = true := by
      have := hc n (by simp)
      simpa [isNameChar, or_assoc] using this
    rw [normName_cons, normChar_variant n c hn h.1 h.2.1 h.2.2,
      spelling_norm ns cs ht (fun c hc' => hc c (List.mem_cons_of_mem _ hc'))]
  | [], _ :: _, h, _ => absurd h id
  | _ :: _, [], h, _ => absurd h id

/-- a member and every spelling of its name give the member's settings -/
theorem spelling_equiv_name {r : Str × List Str} {v : Str} (hr : r ∈ Gen.formatTable)
    (hv : Variant r.1 v) :
    Scrub.scrub (.str v) = .ok r.2 ∧ Scrub.scrub (.member r.1) = .ok r.2 := by
  have hcs := format_names_charset r hr
  have hnorm := spelling_norm r.1 v hv hcs.2
  have hnc := name_chars hr
  obtain ⟨h1, h2, h3⟩ := name_string_facts hnorm hnc.1 hnc.2
  exact ⟨scrub_str_name h1 h2 h3 (by rw [hnorm]; exact name_lookup_total r hr), scrub_member hr⟩

example : Variant "ALICE_BLUE".toList "Alice-blue".toList := by decide
example : Variant "ALT_FONT_1".toList "alt font_1".toList := by decide
example : ¬ Variant "ALICE_BLUE".toList "ALICE+BLUE".toList := by decide
example : ("ALICE_BLUE".toList, ["38;2;240;248;255".toList]) ∈ Gen.formatTable := by
  unfold Gen.formatTable; exact List.mem_cons_self ..

/-! ## T3 — a member's integer codes, as ints or as one `;`-separated string -/

/-- codes given as one `;`-separated string ≡ the same codes given as a list of ints -/
theorem codes_string_eq_ints {l : List Nat} (h : l ≠ []) :
    Scrub.scrub (.str (Scrub.joinNats l)) = Scrub.scrub (.list (l.map (fun (n : Nat) => SArg.int (n : Int)))) :=
  scrub_codes_string h

example : ([38, 5, 1] : List Nat) ≠ [] := by decide

/-- the integer codes of a member's setting texts, flattened in order -/
def memberCodes (ts : List Str) : List Nat :=
  ts.flatMap (fun t => (SettingTxt.toList t).filterMap
    (fun c => match c with | .int i => some i.toNat | .str _ => none))

def okEq (x : Except PyErr (List Str)) (ts : List Str) : Bool :=
  match x with | .ok l => l == ts | .error _ => false

/-- per member: its codes as ints scrub back to its texts, and its texts joined with `;` are the
    canonical `;`-join of its codes -/
def codesCheck (r : Str × List Str) : Bool :=
  !(memberCodes r.2).isEmpty &&
  okEq (Scrub.scrub (.list ((memberCodes r.2).map (fun (n : Nat) => SArg.int (n : Int))))) r.2 &&
  joinSep semi r.2 == Scrub.joinNats (memberCodes r.2)

set_option maxRecDepth 100000 in
theorem spelling_equiv_codes_check : Gen.formatTable.all codesCheck = true := by scrubl_table_decide

theorem spelling_equiv_codes : ∀ r ∈ Gen.formatTable,
    Scrub.scrub (.list ((memberCodes r.2).map (fun (n : Nat) => SArg.int (n : Int)))) = .ok r.2 ∧
    Scrub.scrub (.str (joinSep [';'] r.2)) = .ok r.2 := by
  intro r hr
  have h := spelling_equiv_codes_check
  rw [List.all_eq_true] at h
  have h := h r hr
  simp only [codesCheck, Bool.and_eq_true, Bool.not_eq_true', List.isEmpty_eq_false_iff, beq_iff_eq] at h
  obtain ⟨⟨h1, h2⟩, h3⟩ := h
  have hl : Scrub.scrub (.list ((memberCodes r.2).map (fun (n : Nat) => SArg.int (n : Int)))) = .ok r.2 := by
    revert h2
    cases Scrub.scrub (.list ((memberCodes r.2).map (fun (n : Nat) => SArg.int (n : Int)))) with
    | error e => intro h2; simp [okEq] at h2
    | ok l => intro h2; simp only [okEq, beq_iff_eq] at h2; rw [h2]
  refine ⟨hl, ?_⟩
  have : joinSep [';'] r.2 = Scrub.joinNats (memberCodes r.2) := h3
  rw [this, codes_string_eq_ints h1, hl]

/-! ## T4 — verbatim form and AnsiSetting objects -/

theorem verbatim_form {t : Str} (ht : t ≠ []) : Scrub.scrub (.str ('[' :: t)) = .ok [t] := scrub_verbatim ht

theorem obj_form (t : Str) : Scrub.scrub (.obj t) = .ok [t] := scrub_obj t

/-- the codes of a member written verbatim after `[` give the single setting whose text is the
    `;`-join of the member's texts -/
theorem member_verbatim {r : Str × List Str} (hr : r ∈ Gen.formatTable) :
    Scrub.scrub (.str ('[' :: joinSep [';'] r.2)) = .ok [joinSep [';'] r.2] := by
  apply verbatim_form
  have h := spelling_equiv_codes_check
  rw [List.all_eq_true] at h
  have h := h r hr
  simp only [codesCheck, Bool.and_eq_true, Bool.not_eq_true', List.isEmpty_eq_false_iff, beq_iff_eq] at h
  have e : joinSep [';'] r.2 = Scrub.joinNats (memberCodes r.2) := h.2
  rw [e]
  intro hnil
  have := joinNats_head h.1.1
  cases hm : memberCodes r.2 with
  | nil => exact h.1.1 hm
  | cons n l =>
    rw [hm] at hnil
    match l, hnil with
    | [], hnil => exact natStr_ne_nil n hnil
    | n' :: l', hnil =>
      simp only [Scrub.joinNats, List.map_cons, joinSep] at hnil
      have := List.append_eq_nil_iff.1 hnil
      exact natStr_ne_nil n (List.append_eq_nil_iff.1 this.1).1

example : ("a".toList : Str) ≠ [] := by decide

/-! ## T5 — rgb(...) and colo[u]r256(...) strings -/

/-- `rgb(r,g,b)`: foreground 24-bit colour, components clamped to 0..255 -/
theorem rgb_forms (r g b : Nat) :
    Scrub.scrub (.str ("rgb(".toList ++ Py.natStr r ++ [','] ++ Py.natStr g ++ [','] ++ Py.natStr b ++ [')'])) =
      .ok [Scrub.joinNats [38, 2, min 255 r, min 255 g, min 255 b]] := by
  rw [reassoc3]
  have := scrub_rgb3 [] (by simp [prefixes]) r g b
  rw [List.nil_append, component_vals.1, (colorSettings_vals _).1] at this
  exact this

theorem rgb_forms_fg (r g b : Nat) :
    Scrub.scrub (.str ("fg_rgb(".toList ++ Py.natStr r ++ [','] ++ Py.natStr g ++ [','] ++ Py.natStr b ++ [')'])) =
      .ok [Scrub.joinNats [38, 2, min 255 r, min 255 g, min 255 b]] := by
  have e : "fg_rgb(".toList = "fg_".toList ++ "rgb(".toList := by simp only [strLitToList]; rfl
  rw [reassoc3, e, List.append_assoc]
  have := scrub_rgb3 "fg_".toList (by simp [prefixes]) r g b
  rw [component_vals.2.1, (colorSettings_vals _).1] at this
  exact this

theorem rgb_forms_bg (r g b : Nat) :
    Scrub.scrub (.str ("bg_rgb(".toList ++ Py.natStr r ++ [','] ++ Py.natStr g ++ [','] ++ Py.natStr b ++ [')'])) =
      .ok [Scrub.joinNats [48, 2, min 255 r, min 255 g, min 255 b]] := by
  have e : "bg_rgb(".toList = "bg_".toList ++ "rgb(".toList := by simp only [strLitToList]; rfl
  rw [reassoc3, e, List.append_assoc]
  have := scrub_rgb3 "bg_".toList (by simp [prefixes]) r g b
  rw [component_vals.2.2.1, (colorSettings_vals _).2.1] at this
  exact this

/-- `ul_rgb(r,g,b)` also switches underline on -/
theorem rgb_forms_ul (r g b : Nat) :
    Scrub.scrub (.str ("ul_rgb(".toList ++ Py.natStr r ++ [','] ++ Py.natStr g ++ [','] ++ Py.natStr b ++ [')'])) =
      .ok ["4".toList, Scrub.joinNats [58, 2, min 255 r, min 255 g, min 255 b]] := by
  have e : "ul_rgb(".toList = "ul_".toList ++ "rgb(".toList := by simp only [strLitToList]; rfl
  have e4 : "4".toList = Py.natStr 4 := by simp only [strLitToList]; rfl
  rw [reassoc3, e, List.append_assoc, e4]
  have := scrub_rgb3 "ul_".toList (by simp [prefixes]) r g b
  rw [component_vals.2.2.2.1, (colorSettings_vals _).2.2.1] at this
  exact this

/-- `dul_rgb(r,g,b)` also switches double underline on -/
theorem rgb_forms_dul (r g b : Nat) :
    Scrub.scrub (.str ("dul_rgb(".toList ++ Py.natStr r ++ [','] ++ Py.natStr g ++ [','] ++ Py.natStr b ++ [')'])) =
      .ok ["21".toList, Scrub.joinNats [58, 2, min 255 r, min 255 g, min 255 b]] := by
  have e : "dul_rgb(".toList = "dul_".toList ++ "rgb(".toList := by simp only [strLitToList]; rfl
  have e21 : "21".toList = Py.natStr 21 := by simp only [strLitToList]; rfl
  rw [reassoc3, e, List.append_assoc, e21]
  have := scrub_rgb3 "dul_".toList (by simp [prefixes]) r g b
  rw [component_vals.2.2.2.2, (colorSettings_vals _).2.2.2.1] at this
  exact this

/-- `rgb(v)`: a single value is split into its r, g, b bytes -/
theorem rgb_split24 (v : Nat) :
    Scrub.scrub (.str ("rgb(".toList ++ Py.natStr v ++ [')'])) =
      .ok [Scrub.joinNats [38, 2, (v / 65536) % 256, (v / 256) % 256, v % 256]] := by
  rw [List.append_assoc]
  have := scrub_rgb1 v
  rw [(colorSettings_vals _).1] at this
  exact this

/-- all spellings `[fg_|bg_|ul_|dul_]colo[u]r256(n)` at once (`u` = British spelling) -/
theorem color256_forms_gen (pfx : Str) (hp : pfx ∈ prefixes) (u : Bool) (n : Nat) :
    Scrub.scrub (.str (pfx ++ ("colo".toList ++ ((if u then ['u'] else []) ++ ("r256(".toList ++ (Py.natStr n ++ [')'])))))) =
      .ok (Scrub.colorSettings (Scrub.component (some pfx)) false [n]) := scrub_color pfx hp u n

example : "ul_".toList ∈ prefixes := by simp [prefixes]

theorem color256_forms (n : Nat) :
    Scrub.scrub (.str ("color256(".toList ++ Py.natStr n ++ [')'])) = .ok [Scrub.joinNats [38, 5, n]] := by
  have := scrub_color [] (by simp [prefixes]) false n
  rw [component_vals.1, (colorSettings_vals _).2.2.2.2.1] at this
  rw [colorLit.1]; simpa using this

theorem colour256_forms (n : Nat) :
    Scrub.scrub (.str ("colour256(".toList ++ Py.natStr n ++ [')'])) = .ok [Scrub.joinNats [38, 5, n]] := by
  have := scrub_color [] (by simp [prefixes]) true n
  rw [component_vals.1, (colorSettings_vals _).2.2.2.2.1] at this
  rw [colorLit.2.1]; simpa using this

theorem color256_forms_fg (n : Nat) :
    Scrub.scrub (.str ("fg_color256(".toList ++ Py.natStr n ++ [')'])) = .ok [Scrub.joinNats [38, 5, n]] := by
  have := scrub_color "fg_".toList (by simp [prefixes]) false n
  rw [component_vals.2.1, (colorSettings_vals _).2.2.2.2.1] at this
  rw [colorLit.2.2.1]; simpa using this

theorem color256_forms_bg (n : Nat) :
    Scrub.scrub (.str ("bg_color256(".toList ++ Py.natStr n ++ [')'])) = .ok [Scrub.joinNats [48, 5, n]] := by
  have := scrub_color "bg_".toList (by simp [prefixes]) false n
  rw [component_vals.2.2.1, (colorSettings_vals _).2.2.2.2.2.1] at this
  rw [colorLit.2.2.2.1]; simpa using this

theorem colour256_forms_bg (n : Nat) :
    Scrub.scrub (.str ("bg_colour256(".toList ++ Py.natStr n ++ [')'])) = .ok [Scrub.joinNats [48, 5, n]] := by
  have := scrub_color "bg_".toList (by simp [prefixes]) true n
  rw [component_vals.2.2.1, (colorSettings_vals _).2.2.2.2.2.1] at this
  rw [colorLit.2.2.2.2.2.2]; simpa using this

theorem color256_forms_ul (n : Nat) :
    Scrub.scrub (.str ("ul_color256(".toList ++ Py.natStr n ++ [')'])) =
      .ok ["4".toList, Scrub.joinNats [58, 5, n]] := by
  have e4 : "4".toList = Py.natStr 4 := by simp only [strLitToList]; rfl
  have := scrub_color "ul_".toList (by simp [prefixes]) false n
  rw [component_vals.2.2.2.1, (colorSettings_vals _).2.2.2.2.2.2.1] at this
  rw [colorLit.2.2.2.2.1, e4]; simpa using this

theorem color256_forms_dul (n : Nat) :
    Scrub.scrub (.str ("dul_color256(".toList ++ Py.natStr n ++ [')'])) =
      .ok ["21".toList, Scrub.joinNats [58, 5, n]] := by
  have e21 : "21".toList = Py.natStr 21 := by simp only [strLitToList]; rfl
  have := scrub_color "dul_".toList (by simp [prefixes]) false n
  rw [component_vals.2.2.2.2, (colorSettings_vals _).2.2.2.2.2.2.2] at this
  rw [colorLit.2.2.2.2.2.1, e21]; simpa using this

/-- the helper results `AnsiFormat.rgb(r,g,b)` / `.color256(n)` passed as a list of AnsiSettings -/
theorem helper_result_form (ts : List Str) : Scrub.scrub (.list (ts.map SArg.obj)) = .ok ts := by
  have : ∀ ts : List Str, Scrub.scrubItems (ts.map SArg.obj) = .ok (ts.map SOut.setting) := by
    intro ts
    induction ts with
    | nil => rfl
    | cons t ts ih => simp [Scrub.scrubItems, Scrub.scrubItem, ih, bind, Except.bind, pure, Except.pure]
  simp [Scrub.scrub, this, bind, Except.bind, pure, Except.pure, combineInts_settings]

/- remaining spellings (hex with `0x`, brackets, spaces), on instances: the string is recognised by
   `_parse_rgb_string` (evaluated in the kernel) and `scrub` returns exactly its settings
   (`ScrubL.spelled` = `ScrubL.scrub_str_rgb` on string literals) -/
example : Scrub.scrub (.str "rgb(0xff, 0x80, 0x0)".toList) = .ok ["38;2;255;128;0".toList] :=
  spelled "rgb(0xff, 0x80, 0x0)" ["38;2;255;128;0"] (by decide +kernel) (by decide +kernel)
    (by decide +kernel) (by decide +kernel)
example : Scrub.scrub (.str "rgb([ 1 , 2 , 3 ])".toList) = .ok ["38;2;1;2;3".toList] :=
  spelled "rgb([ 1 , 2 , 3 ])" ["38;2;1;2;3"] (by decide +kernel) (by decide +kernel)
    (by decide +kernel) (by decide +kernel)
example : Scrub.scrub (.str "bg_rgb(0x102030)".toList) = .ok ["48;2;16;32;48".toList] :=
  spelled "bg_rgb(0x102030)" ["48;2;16;32;48"] (by decide +kernel) (by decide +kernel)
    (by decide +kernel) (by decide +kernel)
example : Scrub.scrub (.str "rgb(300,0,0)".toList) = .ok ["38;2;255;0;0".toList] :=
  spelled "rgb(300,0,0)" ["38;2;255;0;0"] (by decide +kernel) (by decide +kernel)
    (by decide +kernel) (by decide +kernel)
example : Scrub.scrub (.str "ul_colour256( 0x10 )".toList) = .ok ["4".toList, "58;5;16".toList] :=
  spelled "ul_colour256( 0x10 )" ["4", "58;5;16"] (by decide +kernel) (by decide +kernel)
    (by decide +kernel) (by decide +kernel)
example : Scrub.scrub (.str "dul_color256([7])".toList) = .ok ["21".toList, "58;5;7".toList] :=
  spelled "dul_color256([7])" ["21", "58;5;7"] (by decide +kernel) (by decide +kernel)
    (by decide +kernel) (by decide +kernel)

/-! ## T6 — lists flatten in order; several directives in one string -/

theorem flatten_nested (l₁ l₂ : List SArg) :
    Scrub.scrubItems (l₁ ++ l₂) =
      (do let a ← Scrub.scrubItems l₁; let b ← Scrub.scrubItems l₂; pure (a ++ b)) :=
  scrubItems_append l₁ l₂

/-- one extra level of list around the whole argument changes nothing (no side condition needed) -/
theorem scrub_nested_singleton (l : List SArg) : Scrub.scrub (.list [.list l]) = Scrub.scrub (.list l) :=
  ScrubL.scrub_nested_singleton l

/-- a nested list whose elements produce settings only (no bare integers) may be spliced in place -/
theorem flatten_settings_only {pre post l : List SArg} {ts : List Str}
    (h : Scrub.scrubItems l = .ok (ts.map SOut.setting)) :
    Scrub.scrub (.list (pre ++ [.list l] ++ post)) = Scrub.scrub (.list (pre ++ l ++ post)) := by
  have e := scrubItem_list_of_settings h
  simp only [Scrub.scrub, scrubItems_append, Scrub.scrubItems, e]
  cases Scrub.scrubItems pre <;> cases Scrub.scrubItems l <;> cases Scrub.scrubItems post <;>
    simp [bind, Except.bind, pure, Except.pure]

example : Scrub.scrubItems [.obj "1".toList, .obj "38;5;3".toList] =
    .ok (["1".toList, "38;5;3".toList].map SOut.setting) := by decide

/-- bare integers do *not* splice across a list boundary: `[38, [5, 1]]` ≠ `[38, 5, 1]` -/
example : Scrub.scrub (.list [.int 38, .list [.int 5, .int 1]]) ≠ Scrub.scrub (.list [.int 38, .int 5, .int 1]) := by
  decide +kernel

/-- `a;b`: the first directive, then the rest of the string processed the same way -/
theorem multi_directive {a b : Str} (hne : a ≠ []) (hb : a.head? ≠ some '[') (hs : ';' ∉ a) :
    Scrub.scrubString (a ++ [';'] ++ b) =
      (do let r ← Scrub.scrubDirective a
          let rs ← scrubDirectives (Py.splitOnChar ';' b)
          pure (r ++ rs)) := by
  rw [List.append_assoc, List.singleton_append]; exact scrubString_multi hne hb hs

/-- … and when `b` does not start with `[`, "the same way" is `_scrub_ansi_format_string(b)` -/
theorem multi_directive' {a b : Str} (hne : a ≠ []) (hb : a.head? ≠ some '[') (hs : ';' ∉ a)
    (hb' : b.head? ≠ some '[') :
    Scrub.scrubString (a ++ [';'] ++ b) =
      (do let r ← Scrub.scrubDirective a; let rs ← Scrub.scrubString b; pure (r ++ rs)) := by
  rw [multi_directive hne hb hs, scrubString_as_directives hb']

example : ("1;bold".toList : Str).head? ≠ some '[' := by decide
example : ("bold".toList : Str) ≠ [] ∧ ("bold".toList : Str).head? ≠ some '[' ∧ ';' ∉ ("bold".toList : Str) := by
  decide

/-! ## T7 — rejections -/

theorem reject_negative_int {i : Int} (h : i < 0) : Scrub.scrub (.int i) = .error .valueError :=
  scrub_neg_int h

example : (-1 : Int) < 0 := by decide

theorem reject_type (t : Bool) : Scrub.scrub (.bad t) = .error .typeError := scrub_bad t

theorem reject_selfref {pre post : List SArg} {p : List SOut} (hp : Scrub.scrubItems pre = .ok p) :
    Scrub.scrub (.list (pre ++ [.selfRef] ++ post)) = .error .valueError :=
  scrub_list_err hp rfl

theorem reject_in_list {pre post : List SArg} {p : List SOut} (t : Bool) (hp : Scrub.scrubItems pre = .ok p) :
    Scrub.scrub (.list (pre ++ [.bad t] ++ post)) = .error .typeError :=
  scrub_list_err hp rfl

example : Scrub.scrubItems [.int 1, .obj "38;5;3".toList] = .ok [.int 1, .setting "38;5;3".toList] := by decide

/- The remaining rejections are instances.  They are *not* proved by evaluating `Scrub.scrub` in
   the kernel (that would evaluate the name lookup over the whole member table, ~30 s each) but
   from the facts "not a member name" (one linear pass), "`_parse_rgb_string` returns None / raises"
   and "`int()` fails / is negative" (each evaluated in the kernel). -/

set_option maxRecDepth 100000 in
/-- unknown name -/
theorem reject_unknown_name : Scrub.scrub (.str "nope".toList) = .error .valueError := by
  have hn : Scrub.normName "nope".toList = "NOPE".toList := by decide +kernel
  have hl : Scrub.lookupFormat "NOPE".toList = none :=
    lookup_none_of_all_ne (by scrubl_table_decide)
  exact scrub_str_single_error _ _ (by decide +kernel) (by decide +kernel) (by decide +kernel)
    (scrubDirective_unknown _ (hn ▸ hl) (by decide +kernel) (by decide +kernel) (by decide +kernel))

set_option maxRecDepth 100000 in
/-- negative integer given as text -/
theorem reject_negative_text : Scrub.scrub (.str "-1".toList) = .error .valueError := by
  have hn : Scrub.normName "-1".toList = "_1".toList := by decide +kernel
  have hl : Scrub.lookupFormat "_1".toList = none :=
    lookup_none_of_all_ne (by scrubl_table_decide)
  exact scrub_str_single_error _ _ (by decide +kernel) (by decide +kernel) (by decide +kernel)
    (scrubDirective_negative _ (-1) (hn ▸ hl) (by decide +kernel) (by decide +kernel) (by decide +kernel)
      (by decide))

/-- too few components: no pattern matches and it is not an integer -/
theorem reject_malformed_rgb : Scrub.scrub (.str "rgb(1,2)".toList) = .error .valueError := by
  have hl : Scrub.lookupFormat (Scrub.normName "rgb(1,2)".toList) = none :=
    lookup_none_of_char (c := '(') (by decide +kernel) (by decide)
  exact scrub_str_single_error _ _ (by decide +kernel) (by decide +kernel) (by decide +kernel)
    (scrubDirective_unknown _ hl (by decide +kernel) (by decide +kernel) (by decide +kernel))

/-- hex digits without `0x`: the pattern matches but `int(_, 10)` raises -/
theorem reject_malformed_rgb_hex : Scrub.scrub (.str "rgb(ff,0,0)".toList) = .error .valueError := by
  have hl : Scrub.lookupFormat (Scrub.normName "rgb(ff,0,0)".toList) = none :=
    lookup_none_of_char (c := '(') (by decide +kernel) (by decide)
  exact scrub_str_single_error _ _ (by decide +kernel) (by decide +kernel) (by decide +kernel)
    (scrubDirective_rgb_error _ _ hl (by decide +kernel))

set_option maxRecDepth 100000 in
/-- a good directive followed by an unknown one -/
theorem reject_second_directive : Scrub.scrub (.str "red;nope".toList) = .error .valueError := by
  have hn : Scrub.normName "nope".toList = "NOPE".toList := by decide +kernel
  have hl : Scrub.lookupFormat "NOPE".toList = none :=
    lookup_none_of_all_ne (by scrubl_table_decide)
  have hred : ("RED".toList, ["31".toList]) ∈ Gen.formatTable :=
    mem_table_of_contains (by scrubl_table_decide)
  have hnr : Scrub.normName "red".toList = "RED".toList := by decide +kernel
  have e : "red;nope".toList = "red".toList ++ ';' :: "nope".toList := by decide +kernel
  rw [e]
  exact scrub_str_multi_error_snd _ _ _ _ (by decide +kernel) (by decide +kernel) (by decide +kernel)
    (by decide +kernel)
    (scrubDirective_of_lookup (hnr ▸ name_lookup_total _ hred))
    (scrubDirective_unknown _ (hn ▸ hl) (by decide +kernel) (by decide +kernel) (by decide +kernel))

/-- `[` alone: empty verbatim text -/
theorem reject_empty_verbatim : Scrub.scrub (.str "[".toList) = .error .valueError := by decide +kernel

/-- a `)` is not an opening bracket (defect D35: the code's character class used to contain it) -/
theorem reject_stray_close_bracket :
    Scrub.scrub (.str "rgb()1,2,3)".toList) = .error .valueError ∧
    Scrub.scrub (.str "ul_color256()17)".toList) = .error .valueError ∧
    Scrub.scrub (.str "rgb((1,2,3))".toList) = .ok ["38;2;1;2;3".toList] ∧
    Scrub.scrub (.str "rgb([1,2,3])".toList) = .ok ["38;2;1;2;3".toList] := by decide +kernel

end C14

#print axioms C14.format_table_sorted
#print axioms C14.format_names_charset
#print axioms C14.name_lookup_total
#print axioms C14.spelling_norm
#print axioms C14.spelling_equiv_name
#print axioms C14.codes_string_eq_ints
#print axioms C14.spelling_equiv_codes
#print axioms C14.verbatim_form
#print axioms C14.obj_form
#print axioms C14.member_verbatim
#print axioms C14.rgb_forms
#print axioms C14.rgb_forms_fg
#print axioms C14.rgb_forms_bg
#print axioms C14.rgb_forms_ul
#print axioms C14.rgb_forms_dul
#print axioms C14.rgb_split24
#print axioms C14.color256_forms_gen
#print axioms C14.color256_forms
#print axioms C14.colour256_forms
#print axioms C14.color256_forms_fg
#print axioms C14.color256_forms_bg
#print axioms C14.colour256_forms_bg
#print axioms C14.color256_forms_ul
#print axioms C14.color256_forms_dul
#print axioms C14.helper_result_form
#print axioms C14.flatten_nested
#print axioms C14.scrub_nested_singleton
#print axioms C14.flatten_settings_only
#print axioms C14.multi_directive
#print axioms C14.multi_directive'
#print axioms C14.reject_negative_int
#print axioms C14.reject_type
#print axioms C14.reject_selfref
#print axioms C14.reject_in_list
#print axioms C14.reject_unknown_name
#print axioms C14.reject_negative_text
#print axioms C14.reject_malformed_rgb
#print axioms C14.reject_malformed_rgb_hex
#print axioms C14.reject_second_directive
#print axioms C14.reject_empty_verbatim
#print axioms C14.reject_stray_close_bracket
