import AnsiProofs.Lemmas.Concat
/-
  Property C05 — concatenation (`__iadd__`, `__add__`, `join`).

  `a b : AStr`, `c := a.iadd b` (the model of `a += b`; `a + b` is `a.copy() += b`, the same
  function of the values; `join(x1, …, xn)` is the left fold of `iadd`).

  * the text of `c` is `a.s ++ b.s`;
  * every character of `a` keeps exactly its settings (same objects, same order);
  * every character of `b` keeps its setting texts in the same order (objects that were merged at
    the seam are re-targeted to the objects of `a`, which carry the same text);
  * no disjointness of identities is assumed: `a.iadd a` and operands sharing objects are covered;
  * `WF` is preserved (for operands whose shared identities carry the same text, `CoherentPair`).

  All helper lemmas live in `AnsiProofs/Lemmas/Concat.lean` (namespace `ConcatL`).
-/

open ConcatL

namespace C05

/-! ## 1 — text -/

theorem iadd_text (a b : AStr) : (a.iadd b).s = a.s ++ b.s := rfl

/-! ## 2 — a plain `str` operand -/

theorem iadd_plain (a : AStr) (t : Str) :
    a.iadd { s := t, fmts := [] } = { s := a.s ++ t, fmts := a.fmts } := rfl

/-- characters of an appended plain `str` have no settings -/
theorem iadd_plain_right (a : AStr) (t : Str) (ha : WF a) :
    ∀ j, a.len ≤ j → act (a.iadd { s := t, fmts := [] }) j = [] := by
  intro j hj
  rw [iadd_plain]
  exact plain_right_aux ha hj

/-! ## 3 — the characters of the left operand keep their settings (objects and order) -/

theorem iadd_left (a b : AStr) (ha : WF a) (hb : WF b) {i : Nat} (hi : i < a.len) :
    act (a.iadd b) i = act a i :=
  act_left_aux ha hb hi

/-! ## 4 — the characters of the right operand keep their setting texts, in the same order -/

/-- no hypothesis on the identities of `a` and `b`: they may share objects -/
theorem iadd_right (a b : AStr) (ha : WF a) (hb : WF b) {k : Nat} (_hk : k < b.len) :
    texts (act (a.iadd b) (a.len + k)) = texts (act b k) :=
  act_right_aux ha hb k

/-- the same beyond the end of `b` (both sides are empty there) -/
theorem iadd_right_all (a b : AStr) (ha : WF a) (hb : WF b) (k : Nat) :
    texts (act (a.iadd b) (a.len + k)) = texts (act b k) :=
  act_right_aux ha hb k

/-- a value concatenated with itself -/
theorem iadd_self_right (a : AStr) (ha : WF a) {k : Nat} (hk : k < a.len) :
    texts (act (a.iadd a) (a.len + k)) = texts (act a k) :=
  iadd_right a a ha ha hk

theorem iadd_self_left (a : AStr) (ha : WF a) {i : Nat} (hi : i < a.len) :
    act (a.iadd a) i = act a i :=
  iadd_left a a ha ha hi

/-! ## 5 — the invariant is preserved -/

/-- `CoherentPair a b`: identities shared between `a` and `b` carry the same text (true in every
    store, identities being object identities) -/
theorem iadd_wf (a b : AStr) (ha : WF a) (hb : WF b) (hc : CoherentPair a b) : WF (a.iadd b) :=
  iadd_wf_aux ha hb hc

theorem iadd_self_wf (a : AStr) (ha : WF a) : WF (a.iadd a) :=
  iadd_wf_aux ha ha ha.coherent

/-! ## 6 — `join` -/

theorem join_nil : AStr.join [] = {} := rfl

theorem join_fold (x : AStr) (rest : List AStr) : AStr.join (x :: rest) = rest.foldl AStr.iadd x := rfl

theorem join_pair (a b : AStr) : AStr.join [a, b] = a.iadd b := rfl

/-! ## 7 — empty operands -/

theorem iadd_empty_right (a : AStr) : a.iadd {} = a := by
  cases a
  simp [AStr.iadd]

theorem iadd_empty_left (b : AStr) (hb : WF b) :
    ∀ k, texts (act (({} : AStr).iadd b) k) = texts (act b k) := by
  intro k
  have := act_right_aux wf_empty hb k
  simpa [AStr.len, act] using this

/-! ## non-vacuity: concrete operands -/

def r1 : Setting := ⟨1, "31".toList⟩   -- red, object 1
def r2 : Setting := ⟨2, "31".toList⟩   -- red, object 2
def b3 : Setting := ⟨3, "34".toList⟩   -- blue, object 3

/-- `'ab'` red -/
def aRed : AStr := { s := "ab".toList, fmts := [(0, { add := [r1] }), (2, { rem := [r1] })] }
/-- `'c'` red (another object with the same text) -/
def cRed : AStr := { s := "c".toList, fmts := [(0, { add := [r2] }), (1, { rem := [r2] })] }
/-- `'c'` blue -/
def cBlue : AStr := { s := "c".toList, fmts := [(0, { add := [b3] }), (1, { rem := [b3] })] }

theorem aRed_wf : WF aRed where
  sorted := by unfold SortedKeys; decide
  bound := by decide
  noAddEnd := by decide
  ok := by decide
  nodup := by
    intro i
    rcases i with _ | _ | i
    · decide
    · decide
    · simp [active, activeFrom, aRed, stepPoint, eraseId, r1]
  closed := by decide
  coherent := by decide

theorem cRed_wf : WF cRed where
  sorted := by unfold SortedKeys; decide
  bound := by decide
  noAddEnd := by decide
  ok := by decide
  nodup := by
    intro i
    rcases i with _ | i
    · decide
    · simp [active, activeFrom, cRed, stepPoint, eraseId, r2]
  closed := by decide
  coherent := by decide

theorem cBlue_wf : WF cBlue where
  sorted := by unfold SortedKeys; decide
  bound := by decide
  noAddEnd := by decide
  ok := by decide
  nodup := by
    intro i
    rcases i with _ | i
    · decide
    · simp [active, activeFrom, cBlue, stepPoint, eraseId, b3]
  closed := by decide
  coherent := by decide

/-- the hypotheses of `iadd_left`, `iadd_right`, `iadd_wf` hold on concrete values -/
example : WF aRed ∧ WF cRed ∧ CoherentPair aRed cRed ∧ 1 < aRed.len ∧ 0 < cRed.len :=
  ⟨aRed_wf, cRed_wf, by decide, by decide, by decide⟩
example : WF aRed ∧ WF cBlue ∧ CoherentPair aRed cBlue := ⟨aRed_wf, cBlue_wf, by decide⟩

/-- merge at the seam: one run, the right operand's stop marker is re-targeted to object 1 -/
example : aRed.iadd cRed =
    { s := "abc".toList, fmts := [(0, { add := [r1] }), (3, { rem := [r1] })] } := by decide
example : act (aRed.iadd cRed) 2 = [r1] ∧ act cRed 0 = [r2] ∧
    texts (act (aRed.iadd cRed) (aRed.len + 0)) = texts (act cRed 0) := by decide

/-- different styles at the seam: no merge -/
example : aRed.iadd cBlue =
    { s := "abc".toList,
      fmts := [(0, { add := [r1] }), (2, { add := [b3], rem := [r1] }), (3, { rem := [b3] })] } := by decide
example : act (aRed.iadd cBlue) 1 = [r1] ∧ act (aRed.iadd cBlue) 2 = [b3] := by decide

/-- a value concatenated with itself (operands share every object): merged into one run -/
example : aRed.iadd aRed =
    { s := "abab".toList, fmts := [(0, { add := [r1] }), (4, { rem := [r1] })] } := by decide
example : act (aRed.iadd aRed) 3 = [r1] ∧ WF (aRed.iadd aRed) := ⟨by decide, iadd_self_wf aRed aRed_wf⟩

/-- a plain `str` operand -/
example : act (aRed.iadd { s := "xy".toList, fmts := [] }) 1 = [r1] ∧
    act (aRed.iadd { s := "xy".toList, fmts := [] }) 2 = [] := by decide

/-! ### the witness that broke the property before the repair of `__iadd__`

  `x = 'a'` red (object 1); `y = 'cead'` with red (object 7) on `[0,4)`, blue on `[1,4)` and the
  object 1 of `x` again on `[2,3)`.  Merging the outer red of `y` into object 1 would make object 1
  active twice; the repaired code refuses the merge (object 1 starts again in `y` at key 2). -/

def r7 : Setting := ⟨7, "31".toList⟩
def xa : AStr := { s := "a".toList, fmts := [(0, { add := [r1] }), (1, { rem := [r1] })] }
def yb : AStr :=
  { s := "cead".toList,
    fmts := [(0, { add := [r7] }), (1, { add := [b3] }), (2, { add := [r1] }), (3, { rem := [r1] }),
             (4, { rem := [b3, r7] })] }

theorem xa_wf : WF xa where
  sorted := by unfold SortedKeys; decide
  bound := by decide
  noAddEnd := by decide
  ok := by decide
  nodup := by
    intro i
    rcases i with _ | i
    · decide
    · simp [active, activeFrom, xa, stepPoint, eraseId, r1]
  closed := by decide
  coherent := by decide

theorem yb_wf : WF yb where
  sorted := by unfold SortedKeys; decide
  bound := by decide
  noAddEnd := by decide
  ok := by decide
  nodup := by
    intro i
    rcases i with _ | _ | _ | _ | i
    · decide
    · decide
    · decide
    · decide
    · simp [active, activeFrom, yb, stepPoint, eraseId, r1, r7, b3]
  closed := by decide
  coherent := by decide

/-- the operands share object 1, and the theorems apply to them -/
example : WF xa ∧ WF yb ∧ CoherentPair xa yb ∧ hasId yb.fmts.settings r1.id = true ∧ 3 < yb.len :=
  ⟨xa_wf, yb_wf, by decide, by decide, by decide⟩
example : WF (xa.iadd yb) := iadd_wf xa yb xa_wf yb_wf (by decide)

example : texts (act (xa.iadd yb) (xa.len + 3)) = ["31".toList, "34".toList] ∧
    texts (act yb 3) = ["31".toList, "34".toList] := by decide

example : (xa.iadd yb).fmts =
    [(0, { add := [r1] }), (1, { add := [r7], rem := [r1] }), (2, { add := [b3] }), (3, { add := [r1] }),
     (4, { rem := [r1] }), (5, { rem := [b3, r7] })] := by decide

/-- the self-concatenation witness: object 1 is used twice inside the value -/
def g2 : Setting := ⟨2, "31".toList⟩
def ax : AStr :=
  { s := "abcde".toList,
    fmts := [(0, { add := [g2] }), (1, { add := [b3] }), (2, { add := [r1] }), (3, { rem := [r1] }),
             (4, { add := [r1], rem := [b3, g2] }), (5, { rem := [r1] })] }

theorem ax_wf : WF ax where
  sorted := by unfold SortedKeys; decide
  bound := by decide
  noAddEnd := by decide
  ok := by decide
  nodup := by
    intro i
    rcases i with _ | _ | _ | _ | _ | i
    · decide
    · decide
    · decide
    · decide
    · decide
    · simp [active, activeFrom, ax, stepPoint, eraseId, r1, g2, b3]
  closed := by decide
  coherent := by decide

example : WF ax ∧ 3 < ax.len := ⟨ax_wf, by decide⟩
example : WF (ax.iadd ax) := iadd_self_wf ax ax_wf

example : texts (act (ax.iadd ax) (ax.len + 3)) = texts (act ax 3) ∧
    texts (act ax 3) = ["31".toList, "34".toList] := by decide

end C05
