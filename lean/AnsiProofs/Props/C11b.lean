import AnsiProofs.Lemmas.Replace
/-
  Property C11, `replace` / `expandtabs` clause — the SETTINGS of the result (its text is C10).

  "replace (and expandtabs) keeps all characters outside the matches unchanged, gives a plain-str
  replacement the settings of the first character of the match it replaces, and an
  AnsiString/AnsiStr replacement its own settings, for every match … replacement values reused
  across several matches."

  Notation: `styled y` is the text of `y` with, for every character, the list of setting TEXTS it
  reports (lowest precedence first; texts rather than objects, because concatenation may re-target
  the identity of a setting that is merged at a seam).  `old ≠ []` throughout (the empty `old` is a
  different code path: insertion before every character).

  1 one iteration: `replace_one_at`, `replace_one`, `replace_one_str`, `replace_one_str_at`,
    `replace_one_styled`,
    `replace_one_is_loop_step`;
  2 the specification `PySpec.replaceStyled` (a left-to-right scan over styled characters, written
    without the model's loop, slices or concatenation) and what it means
    (`replaceStyledGo_absent/_zero/_first`, `replaceStyled_text`);
    the whole loop: `replace_settings` (AnsiString/AnsiStr replacement), `replace_settings_str`
    (plain `str` replacement), `replace_reuses_value`;
  3 `expandtabs_settings`;
  4 `replace_wf`, `replace_wf_str`, `replace_fresh_str`.
  All statements are proved as given; none had to be weakened.
  Helper lemmas: `AnsiProofs/Lemmas/Replace.lean` (namespace `ReplaceL`).
-/

open StrLikeL ConcatL ReplaceL

namespace PySpec

/-- `replace(old, new, count)` on STYLED characters, for a NON-EMPTY `old`: scan left to right like
    `PySpec.replaceGo`; `skip` counts the characters of a matched `old` still to be skipped.  At each
    position (with `skip = 0`): if `count ≠ 0` and `old` is a prefix of the remaining text, emit
    `new st` where `st` is the style of the FIRST matched character, skip `old`, decrement a positive
    count; otherwise emit the character with its style. -/
def replaceStyledGo (old : Str) (new : List Str → List (Char × List Str)) :
    List (Char × List Str) → Nat → Int → List (Char × List Str)
  | [], _, _ => []
  | _ :: rest, skip + 1, count => replaceStyledGo old new rest skip count
  | c :: rest, 0, count =>
    if count ≠ 0 ∧ old.isPrefixOf ((c :: rest).map (·.1)) then
      new c.2 ++ replaceStyledGo old new rest (old.length - 1) (if count > 0 then count - 1 else count)
    else c :: replaceStyledGo old new rest 0 count

/-- the specification of the settings of `s.replace(old, new, count)` -/
def replaceStyled (s : List (Char × List Str)) (old : Str)
    (new : List Str → List (Char × List Str)) (count : Int) : List (Char × List Str) :=
  replaceStyledGo old new s 0 count

/-! ### the specification means what it says -/

/-- skipping is dropping -/
theorem replaceStyledGo_skip (old : Str) (new : List Str → List (Char × List Str))
    (s : List (Char × List Str)) (k : Nat) (c : Int) :
    replaceStyledGo old new s k c = replaceStyledGo old new (s.drop k) 0 c := by
  induction s generalizing k with
  | nil => simp [replaceStyledGo]
  | cons a s ih =>
    cases k with
    | zero => rfl
    | succ k => rw [replaceStyledGo, ih]; rfl

/-- count 0: nothing is replaced -/
theorem replaceStyledGo_zero (old : Str) (new : List Str → List (Char × List Str))
    (s : List (Char × List Str)) : replaceStyledGo old new s 0 0 = s := by
  induction s with
  | nil => rfl
  | cons a s ih => rw [replaceStyledGo]; simp [ih]

/-- no occurrence: nothing is replaced, every character keeps its style -/
theorem replaceStyledGo_absent (old : Str) (new : List Str → List (Char × List Str))
    (s : List (Char × List Str)) (c : Int)
    (h : ∀ j, j ≤ s.length → old.isPrefixOf ((s.map (·.1)).drop j) = false) :
    replaceStyledGo old new s 0 c = s := by
  induction s with
  | nil => rfl
  | cons a s ih =>
    have h0 := h 0 (Nat.zero_le _)
    rw [List.drop_zero] at h0
    rw [replaceStyledGo, h0]
    simp only [Bool.false_eq_true, and_false, if_false]
    rw [ih (fun j hj => by simpa using h (j + 1) (by simpa using hj))]

/-- the first occurrence `m :: mid` of `old` is replaced by `new (style of m)`, everything before
    it is kept with its style, and the scan continues behind it -/
theorem replaceStyledGo_first (old : Str) (new : List Str → List (Char × List Str)) (_hold : old ≠ [])
    (pre : List (Char × List Str)) (m : Char × List Str) (mid post : List (Char × List Str))
    (c : Int) (hc : c ≠ 0) (hmid : (m :: mid).map (·.1) = old)
    (h : ∀ j, j < pre.length →
      old.isPrefixOf (((pre ++ (m :: mid) ++ post).map (·.1)).drop j) = false) :
    replaceStyledGo old new (pre ++ (m :: mid) ++ post) 0 c =
      pre ++ new m.2 ++ replaceStyledGo old new post 0 (if c > 0 then c - 1 else c) := by
  induction pre with
  | nil =>
    have hp : old.isPrefixOf (((m :: mid) ++ post).map (·.1)) = true := by
      rw [List.map_append, hmid]
      exact List.isPrefixOf_iff_prefix.mpr ⟨_, rfl⟩
    have hl : mid.length = old.length - 1 := by
      rw [← hmid]; simp
    simp only [List.nil_append, List.cons_append] at hp ⊢
    rw [replaceStyledGo, hp, replaceStyledGo_skip, ← hl, List.drop_left]
    simp [hc]
  | cons a pre ih =>
    have h0 := h 0 (by simp)
    rw [List.drop_zero] at h0
    simp only [List.cons_append] at h0 ⊢
    rw [replaceStyledGo, h0]
    simp only [Bool.false_eq_true, and_false, if_false]
    rw [ih (fun j hj => by simpa using h (j + 1) (by simpa using hj))]

/-- the text of the styled specification is `str.replace` (`PySpec.replaceGo`) of the text, whenever
    the inserted value always has the same text `nt` -/
theorem replaceStyledGo_text (old : Str) (new : List Str → List (Char × List Str)) (nt : Str)
    (hn : ∀ st, (new st).map (·.1) = nt) (s : List (Char × List Str)) (k : Nat) (c : Int) :
    (replaceStyledGo old new s k c).map (·.1) = replaceGo old nt (s.map (·.1)) k c := by
  induction s generalizing k c with
  | nil => simp [replaceStyledGo, replaceGo]
  | cons a s ih =>
    cases k with
    | succ k => simp only [replaceStyledGo, List.map_cons, replaceGo]; exact ih k c
    | zero =>
      simp only [replaceStyledGo, List.map_cons, replaceGo]
      split
      · rw [List.map_append, hn, ih]
      · rw [List.map_cons, ih]

theorem replaceStyled_text (s : List (Char × List Str)) (old : Str)
    (new : List Str → List (Char × List Str)) (nt : Str) (hn : ∀ st, (new st).map (·.1) = nt)
    (count : Int) :
    (replaceStyled s old new count).map (·.1) = replaceGo old nt (s.map (·.1)) 0 count :=
  replaceStyledGo_text old new nt hn s 0 count

end PySpec

namespace C11b

/-- `y.s` with, for every character, the texts of the settings it reports -/
abbrev styled (y : AStr) : List (Char × List Str) := ReplaceL.styled y

theorem styled_def (y : AStr) :
    styled y = y.s.zipIdx.map (fun (c, i) => (c, texts (act y i))) := rfl

/-- character `k` of `styled y` -/
theorem styled_at (y : AStr) (k : Nat) :
    (styled y)[k]? = (y.s[k]?).map (fun c => (c, texts (act y k))) := styled_getElem? y k

theorem styled_text (y : AStr) : (styled y).map (·.1) = y.s := styled_map_fst y

/-! ## 1 — one iteration of the loop: `obj = obj[:i] + rep + obj[i+len(old):]` -/

/-- the new value of `obj` after one iteration, for the replacement value `rep`:
    characters in front of the match keep their settings (objects and order); the characters of
    `rep` report the setting texts they report in `rep`; characters behind the match keep their
    setting texts.  (`CoherentPair obj rep`: identities shared by `obj` and `rep` carry the same
    text — needed for the intermediate value `obj[:i] + rep` to be well-formed.) -/
theorem replace_one_at (obj rep : AStr) (old : Str) (i : Nat) (hw : WF obj) (hr : WF rep)
    (hc : CoherentPair obj rep) (hi : i + old.length ≤ obj.len) :
    let obj' := ((obj.getSlice none (some (i : Int))).iadd rep).iadd
      (obj.getSlice (some ((i + old.length : Nat) : Int)) none)
    (∀ k, k < i → act obj' k = act obj k) ∧
    (∀ q, q < rep.len → texts (act obj' (i + q)) = texts (act rep q)) ∧
    (∀ k, i + old.length + k < obj.len →
      texts (act obj' (i + rep.len + k)) = texts (act obj (i + old.length + k))) :=
  ⟨fun _ hk => step_act_before hw hr hc (by omega) hk,
   fun _ hq => step_act_rep hw hr hc (by omega) hq,
   fun _ hk => step_act_after hw hr hc (by omega) hk⟩

/-- the same for a match found by `find` -/
theorem replace_one (obj rep : AStr) (old : Str) (from_ i : Nat) (hold : old ≠ []) (hw : WF obj)
    (hr : WF rep) (hc : CoherentPair obj rep) (hfind : Py.find obj.s old from_ = some i) :
    let obj' := ((obj.getSlice none (some (i : Int))).iadd rep).iadd
      (obj.getSlice (some ((i + old.length : Nat) : Int)) none)
    (∀ k, k < i → act obj' k = act obj k) ∧
    (∀ q, q < rep.len → texts (act obj' (i + q)) = texts (act rep q)) ∧
    (∀ k, i + old.length + k < obj.len →
      texts (act obj' (i + rep.len + k)) = texts (act obj (i + old.length + k))) := by
  obtain ⟨-, -, hocc, -⟩ := (find_some_iff _ _ _ _).mp hfind
  obtain ⟨t, ht⟩ := List.isPrefixOf_iff_prefix.mp hocc
  have := congrArg List.length ht
  simp only [List.length_append, List.length_drop] at this
  have hol : 0 < old.length := List.length_pos_iff.mpr hold
  exact replace_one_at obj rep old i hw hr hc (by unfold AStr.len; omega)

/-- a match found by `find` lies inside the text (so `replace_one_at` applies to it) -/
theorem find_inside (s old : Str) (from_ i : Nat) (hold : old ≠ [])
    (hfind : Py.find s old from_ = some i) : i + old.length ≤ s.length ∧ i < s.length := by
  obtain ⟨-, -, hocc, -⟩ := (find_some_iff _ _ _ _).mp hfind
  obtain ⟨t, ht⟩ := List.isPrefixOf_iff_prefix.mp hocc
  have := congrArg List.length ht
  simp only [List.length_append, List.length_drop] at this
  have hol : 0 < old.length := List.length_pos_iff.mpr hold
  omega

/-- this IS the step of the model's loop (for both kinds of `new`; `repOf` is the model's
    `let (rep, nid')`) -/
theorem replace_one_is_loop_step (old : Str) (new : AStr.Repl) (fuel : Nat) (obj : AStr)
    (count : Int) (hc : count ≠ 0) (i nid : Nat) :
    AStr.replaceLoop old new (fuel + 1) obj count (some i) nid =
      let obj' := ((obj.getSlice none (some (i : Int))).iadd (repOf new obj i nid).1).iadd
        (obj.getSlice (some ((i + old.length : Nat) : Int)) none)
      AStr.replaceLoop old new fuel obj' (if count > 0 then count - 1 else count)
        (Py.find obj'.s old (i + new.advance + (if old.isEmpty then 1 else 0)))
        (repOf new obj i nid).2 := by
  rw [replaceLoop_succ, if_neg hc]

/-- a plain-`str` replacement `raw` (no ESC): the value inserted for a match at `i` is well-formed
    and every one of its characters reports exactly the setting texts of character `i` of `obj`
    (they are fresh copies: identities `nid, nid+1, …`) -/
theorem replace_one_str (obj : AStr) (raw : Str) (i nid : Nat) (hraw : '\x1b' ∉ raw)
    (hi : i < obj.len) :
    let rep := (repOf (.str raw) obj i nid).1
    rep.s = raw ∧ WF rep ∧
    (∀ q, q < raw.length → texts (act rep q) = texts (act obj i)) ∧
    (∀ s ∈ rep.fmts.settings, nid ≤ s.id ∧ s.id < (repOf (.str raw) obj i nid).2) := by
  rw [repOf_str raw hraw obj hi nid]
  refine ⟨strRep_s _ _ _, strRep_wf _ _ _, ?_, ?_⟩
  · intro q hq
    rw [strRep_act raw nid _ hq, texts_freshSettings]
  · intro s hs
    have := strRep_ids raw nid _ s hs
    simpa [texts] using this

/-- one iteration with a plain-`str` replacement, all three regions at once: in front of the match
    nothing changes, the inserted characters all report the setting texts of the FIRST matched
    character, behind the match the setting texts are kept -/
theorem replace_one_str_at (obj : AStr) (old raw : Str) (i nid : Nat) (hraw : '\x1b' ∉ raw)
    (hold : old ≠ []) (hw : WF obj) (hf : FreshFrom obj nid) (hi : i + old.length ≤ obj.len) :
    let obj' := ((obj.getSlice none (some (i : Int))).iadd (repOf (.str raw) obj i nid).1).iadd
      (obj.getSlice (some ((i + old.length : Nat) : Int)) none)
    (∀ k, k < i → act obj' k = act obj k) ∧
    (∀ q, q < raw.length → texts (act obj' (i + q)) = texts (act obj i)) ∧
    (∀ k, i + old.length + k < obj.len →
      texts (act obj' (i + raw.length + k)) = texts (act obj (i + old.length + k))) := by
  have hol : 0 < old.length := List.length_pos_iff.mpr hold
  obtain ⟨hs, hr, ht, hids⟩ := replace_one_str obj raw i nid hraw (by omega)
  have hc : CoherentPair obj (repOf (.str raw) obj i nid).1 := by
    intro s hs' t ht' e
    have h1 := hf s hs'
    have h2 := (hids t ht').1
    omega
  have hl : (repOf (.str raw) obj i nid).1.len = raw.length := by unfold AStr.len; rw [hs]
  obtain ⟨h1, h2, h3⟩ := replace_one_at obj _ old i hw hr hc hi
  rw [hl] at h2 h3
  exact ⟨h1, fun q hq => by rw [h2 q hq, ht q hq], h3⟩

/-- one iteration on styled lists -/
theorem replace_one_styled (obj rep : AStr) (old : Str) (i : Nat) (hw : WF obj) (hr : WF rep)
    (hc : CoherentPair obj rep) (hi : i + old.length ≤ obj.len) :
    styled (((obj.getSlice none (some (i : Int))).iadd rep).iadd
      (obj.getSlice (some ((i + old.length : Nat) : Int)) none)) =
      (styled obj).take i ++ styled rep ++ (styled obj).drop (i + old.length) :=
  step_styled hw hr hc hi

/-! ## 2 — the whole loop -/

/-- The replacement value of an AnsiString/AnsiStr `new` is the SAME value `v` in every iteration:
    the model is pure, nothing can change `v` between two matches (so the `new` argument of the
    specification is a constant function). -/
theorem replace_reuses_value (v : AStr) (obj₁ obj₂ : AStr) (i₁ i₂ nid₁ nid₂ : Nat) :
    (repOf (.astr v) obj₁ i₁ nid₁).1 = v ∧ (repOf (.astr v) obj₂ i₂ nid₂).1 = v ∧
      (repOf (.astr v) obj₁ i₁ nid₁).2 = nid₁ := ⟨rfl, rfl, rfl⟩

/-- the loop with an AnsiString/AnsiStr replacement, with its invariant -/
theorem replace_astr_all (x : AStr) (old : Str) (v : AStr) (count : Int) (nid : Nat)
    (hold : old ≠ []) (hx : WF x) (hv : WF v) (hc : CoherentPair x v) :
    (WF (x.replace old (.astr v) count nid) ∧ CoherentPair (x.replace old (.astr v) count nid) v) ∧
    styled (x.replace old (.astr v) count nid) =
      PySpec.replaceStyled (styled x) old (fun _ => styled v) count := by
  have h := replaceLoop_styled old hold (.astr v) (fun _ => styled v) (InvA v)
    (fun _ => styled_length v) (astr_step old v hv)
    (fun s c => PySpec.replaceStyledGo old (fun _ => styled v) s 0 c)
    (fun s c hs => PySpec.replaceStyledGo_absent old _ s c hs)
    (fun s => PySpec.replaceStyledGo_zero old _ s)
    (fun pre m mid post c hc hm hs => PySpec.replaceStyledGo_first old _ hold pre m mid post c hc hm hs)
    (x.len + 2) x count nid [] (styled x) ⟨hx, hc⟩ rfl (by rw [styled_length]; omega)
  rw [styled_map_fst] at h
  simp only [List.length_nil, Nat.add_zero, Option.map_id', List.nil_append] at h
  obtain ⟨⟨_, hI⟩, hS⟩ := h
  exact ⟨hI, hS⟩

/-- `replace(old, v, count)` for an AnsiString/AnsiStr `v`: every character outside the matches
    keeps its style, every match is replaced by `v` with `v`'s own styles -/
theorem replace_settings (x : AStr) (old : Str) (v : AStr) (count : Int) (nid : Nat)
    (hold : old ≠ []) (hx : WF x) (hv : WF v) (hc : CoherentPair x v) :
    styled (x.replace old (.astr v) count nid) =
      PySpec.replaceStyled (styled x) old (fun _ => styled v) count :=
  (replace_astr_all x old v count nid hold hx hv hc).2

/-- the loop with a plain-`str` replacement, with its invariant -/
theorem replace_str_all (x : AStr) (old raw : Str) (count : Int) (nid : Nat)
    (hold : old ≠ []) (hx : WF x) (hf : FreshFrom x nid) (hraw : '\x1b' ∉ raw) :
    (∃ nid', WF (x.replace old (.str raw) count nid) ∧
      FreshFrom (x.replace old (.str raw) count nid) nid') ∧
    styled (x.replace old (.str raw) count nid) =
      PySpec.replaceStyled (styled x) old (fun st => raw.map (fun c => (c, st))) count := by
  have h := replaceLoop_styled old hold (.str raw) (fun st => raw.map (fun c => (c, st))) InvS
    (fun _ => by simp [AStr.Repl.advance, AStr.len, C02.parse_plain raw 0 hraw]) (str_step old hold raw hraw)
    (fun s c => PySpec.replaceStyledGo old (fun st => raw.map (fun c => (c, st))) s 0 c)
    (fun s c hs => PySpec.replaceStyledGo_absent old _ s c hs)
    (fun s => PySpec.replaceStyledGo_zero old _ s)
    (fun pre m mid post c hc hm hs => PySpec.replaceStyledGo_first old _ hold pre m mid post c hc hm hs)
    (x.len + 2) x count nid [] (styled x) ⟨hx, hf⟩ rfl (by rw [styled_length]; omega)
  rw [styled_map_fst] at h
  simp only [List.length_nil, Nat.add_zero, Option.map_id', List.nil_append] at h
  exact h

/-- `replace(old, raw, count)` for a plain `str` `raw` (no ESC): every character outside the
    matches keeps its style, every match is replaced by `raw`, each of its characters in the style
    of the FIRST character of the match it replaces -/
theorem replace_settings_str (x : AStr) (old raw : Str) (count : Int) (nid : Nat)
    (hold : old ≠ []) (hx : WF x) (hf : FreshFrom x nid) (hraw : '\x1b' ∉ raw) :
    styled (x.replace old (.str raw) count nid) =
      PySpec.replaceStyled (styled x) old (fun st => raw.map (fun c => (c, st))) count :=
  (replace_str_all x old raw count nid hold hx hf hraw).2

/-! ## 3 — expandtabs -/

/-- `expandtabs(k)`: every tab becomes `k` spaces in the style of the tab; all other characters
    keep their style -/
theorem expandtabs_settings (x : AStr) (k : Int) (nid : Nat) (hx : WF x) (hf : FreshFrom x nid) :
    styled (x.expandtabs k nid) =
      PySpec.replaceStyled (styled x) ['\t']
        (fun st => (List.replicate k.toNat ' ').map (fun c => (c, st))) (-1) := by
  unfold AStr.expandtabs
  refine replace_settings_str x ['\t'] _ (-1) nid (by simp) hx hf ?_
  intro hmem
  exact absurd (List.eq_of_mem_replicate hmem) (by decide)

theorem expandtabs_wf (x : AStr) (k : Int) (nid : Nat) (hx : WF x) (hf : FreshFrom x nid) :
    WF (x.expandtabs k nid) := by
  unfold AStr.expandtabs
  obtain ⟨⟨_, h, _⟩, _⟩ := replace_str_all x ['\t'] (List.replicate k.toNat ' ') (-1) nid (by simp) hx hf
    (fun hmem => absurd (List.eq_of_mem_replicate hmem) (by decide))
  exact h

/-! ## 4 — the invariant is kept -/

theorem replace_wf (x : AStr) (old : Str) (v : AStr) (count : Int) (nid : Nat)
    (hold : old ≠ []) (hx : WF x) (hv : WF v) (hc : CoherentPair x v) :
    WF (x.replace old (.astr v) count nid) :=
  (replace_astr_all x old v count nid hold hx hv hc).1.1

/-- … and the result is still coherent with `v` (so it can be used with `v` again) -/
theorem replace_coherent (x : AStr) (old : Str) (v : AStr) (count : Int) (nid : Nat)
    (hold : old ≠ []) (hx : WF x) (hv : WF v) (hc : CoherentPair x v) :
    CoherentPair (x.replace old (.astr v) count nid) v :=
  (replace_astr_all x old v count nid hold hx hv hc).1.2

theorem replace_wf_str (x : AStr) (old raw : Str) (count : Int) (nid : Nat)
    (hold : old ≠ []) (hx : WF x) (hf : FreshFrom x nid) (hraw : '\x1b' ∉ raw) :
    WF (x.replace old (.str raw) count nid) := by
  obtain ⟨⟨_, h, _⟩, _⟩ := replace_str_all x old raw count nid hold hx hf hraw
  exact h

/-- the identities created for the copies stay below some counter -/
theorem replace_fresh_str (x : AStr) (old raw : Str) (count : Int) (nid : Nat)
    (hold : old ≠ []) (hx : WF x) (hf : FreshFrom x nid) (hraw : '\x1b' ∉ raw) :
    ∃ nid', FreshFrom (x.replace old (.str raw) count nid) nid' := by
  obtain ⟨⟨n, _, h⟩, _⟩ := replace_str_all x old raw count nid hold hx hf hraw
  exact ⟨n, h⟩

/-! ## non-vacuity

  `x = "a-b-c"`, red (`31`, object 1) on `[0,3)` and blue (`34`, object 2) on `[3,5)`: the first
  `-` is red, the second blue.  `plus = "+"`, bold (`1`, object 3). -/

def red : Setting := ⟨1, "31".toList⟩
def blue : Setting := ⟨2, "34".toList⟩
def bold : Setting := ⟨3, "1".toList⟩

def exX : AStr :=
  { s := "a-b-c".toList,
    fmts := [(0, { add := [red] }), (3, { add := [blue], rem := [red] }), (5, { rem := [blue] })] }

def plus : AStr := { s := "+".toList, fmts := [(0, { add := [bold] }), (1, { rem := [bold] })] }

theorem exX_wf : WF exX where
  sorted := by unfold SortedKeys; decide
  bound := by decide
  noAddEnd := by decide
  ok := by decide
  nodup := nodup_all_of_le (m := 5) (by decide) (by decide)
  closed := by decide
  coherent := by decide

theorem plus_wf : WF plus where
  sorted := by unfold SortedKeys; decide
  bound := by decide
  noAddEnd := by decide
  ok := by decide
  nodup := nodup_all_of_le (m := 1) (by decide) (by decide)
  closed := by decide
  coherent := by decide

/-- the hypotheses of `replace_settings`, `replace_wf`, `replace_settings_str`,
    `expandtabs_settings` hold on the example -/
example : "-".toList ≠ [] ∧ WF exX ∧ WF plus ∧ CoherentPair exX plus ∧ FreshFrom exX 10 ∧
    '\x1b' ∉ "+".toList :=
  ⟨by decide, exX_wf, plus_wf, by decide, by unfold FreshFrom; decide, by decide⟩

/-- the hypotheses of `replace_one` / `replace_one_at` / `replace_one_str` -/
example : Py.find exX.s "-".toList 0 = some 1 ∧ Py.find exX.s "-".toList 2 = some 3 ∧
    1 + "-".toList.length ≤ exX.len := by decide

example : styled exX =
    [('a', ["31".toList]), ('-', ["31".toList]), ('b', ["31".toList]), ('-', ["34".toList]),
     ('c', ["34".toList])] := by decide +kernel

/-- AnsiString replacement: both `+` report bold only — NOT the red / blue of the `-` they replace —
    and both occurrences are the same value `plus` -/
example : styled (exX.replace "-".toList (.astr plus) (-1) 10) =
    [('a', ["31".toList]), ('+', ["1".toList]), ('b', ["31".toList]), ('+', ["1".toList]),
     ('c', ["34".toList])] := by decide +kernel

/-- … which is what the specification says -/
example : PySpec.replaceStyled (styled exX) "-".toList (fun _ => styled plus) (-1) =
    [('a', ["31".toList]), ('+', ["1".toList]), ('b', ["31".toList]), ('+', ["1".toList]),
     ('c', ["34".toList])] := by decide +kernel

example : styled (exX.replace "-".toList (.astr plus) (-1) 10) =
    PySpec.replaceStyled (styled exX) "-".toList (fun _ => styled plus) (-1) :=
  replace_settings exX _ plus (-1) 10 (by decide) exX_wf plus_wf (by decide)

/-- plain-`str` replacement: the first `+` reports red, the second blue -/
example : styled (exX.replace "-".toList (.str "+".toList) (-1) 10) =
    [('a', ["31".toList]), ('+', ["31".toList]), ('b', ["31".toList]), ('+', ["34".toList]),
     ('c', ["34".toList])] := by decide +kernel

example : PySpec.replaceStyled (styled exX) "-".toList (fun st => "+".toList.map (fun c => (c, st))) (-1) =
    [('a', ["31".toList]), ('+', ["31".toList]), ('b', ["31".toList]), ('+', ["34".toList]),
     ('c', ["34".toList])] := by decide +kernel

example : styled (exX.replace "-".toList (.str "+".toList) (-1) 10) =
    PySpec.replaceStyled (styled exX) "-".toList (fun st => "+".toList.map (fun c => (c, st))) (-1) :=
  replace_settings_str exX _ _ (-1) 10 (by decide) exX_wf (by unfold FreshFrom; decide) (by decide)

/-- `count = 1`: only the first `-` is replaced -/
example : styled (exX.replace "-".toList (.str "+=".toList) 1 10) =
    [('a', ["31".toList]), ('+', ["31".toList]), ('=', ["31".toList]), ('b', ["31".toList]),
     ('-', ["34".toList]), ('c', ["34".toList])] := by decide +kernel

/-- the table of the AnsiString case: the two `+` are the same object 3 (the value is reused) -/
example : (exX.replace "-".toList (.astr plus) (-1) 10).fmts =
    [(0, { add := [red] }), (1, { add := [bold], rem := [red] }), (2, { add := [red], rem := [bold] }),
     (3, { add := [bold], rem := [red] }), (4, { add := [blue], rem := [bold] }), (5, { rem := [blue] })] := by
  decide +kernel

example : WF (exX.replace "-".toList (.astr plus) (-1) 10) :=
  replace_wf exX _ plus (-1) 10 (by decide) exX_wf plus_wf (by decide)

/-- one iteration on the example (the match at 1, `rep = plus`) -/
example : act (((exX.getSlice none (some 1)).iadd plus).iadd (exX.getSlice (some 2) none)) 0 = [red] ∧
    act (((exX.getSlice none (some 1)).iadd plus).iadd (exX.getSlice (some 2) none)) 1 = [bold] ∧
    act (((exX.getSlice none (some 1)).iadd plus).iadd (exX.getSlice (some 2) none)) 3 = [blue] := by
  decide +kernel

/-- expandtabs: the tab is blue, so are its two spaces -/
def exT : AStr :=
  { s := "a\tb".toList,
    fmts := [(0, { add := [red] }), (1, { add := [blue], rem := [red] }), (2, { rem := [blue] })] }

theorem exT_wf : WF exT where
  sorted := by unfold SortedKeys; decide
  bound := by decide
  noAddEnd := by decide
  ok := by decide
  nodup := nodup_all_of_le (m := 3) (by decide) (by decide)
  closed := by decide
  coherent := by decide

example : WF exT ∧ FreshFrom exT 10 := ⟨exT_wf, by unfold FreshFrom; decide⟩

example : styled (exT.expandtabs 2 10) =
    [('a', ["31".toList]), (' ', ["34".toList]), (' ', ["34".toList]), ('b', [])] := by decide +kernel

end C11b

#print axioms PySpec.replaceStyledGo_absent
#print axioms PySpec.replaceStyledGo_zero
#print axioms PySpec.replaceStyledGo_first
#print axioms PySpec.replaceStyled_text
#print axioms C11b.replace_one_at
#print axioms C11b.replace_one
#print axioms C11b.find_inside
#print axioms C11b.replace_one_is_loop_step
#print axioms C11b.replace_one_str
#print axioms C11b.replace_one_str_at
#print axioms C11b.replace_one_styled
#print axioms C11b.replace_reuses_value
#print axioms C11b.replace_astr_all
#print axioms C11b.replace_settings
#print axioms C11b.replace_str_all
#print axioms C11b.replace_settings_str
#print axioms C11b.expandtabs_settings
#print axioms C11b.expandtabs_wf
#print axioms C11b.replace_wf
#print axioms C11b.replace_coherent
#print axioms C11b.replace_wf_str
#print axioms C11b.replace_fresh_str
#print axioms C11b.exX_wf
#print axioms C11b.plus_wf
#print axioms C11b.exT_wf
