import AnsiProofs.Props.C04c
import AnsiProofs.Props.C09c
import AnsiProofs.Lemmas.Find
import AnsiModel.Generated.Methods.FindCore
/-
  Property C17, part d — the *generated* (statement-by-statement translated) body of
  `AnsiString.find_settings` (`Gen.findCore`: the statements after the settings have been scrubbed)
  computes exactly what the hand-written model says (`AStr.findSettings`, `AnsiModel/Format.lean`) on
  values whose table is sorted; `Exc.key` (the fetch `self._fmts[idx]` of the iterator, the fetch
  `idx_to_settings[idx]` of the search loops) and `Exc.outside` (`None` where `found_start` is compared)
  never happen there.

  * `namespace C17d.L` — everything that does not mention `Gen.findCore`:
    - `BuildSpec`/`fold_build`: the loop that fills `idx_to_settings`, for any step function that does
      what one round has to do on a key of the table: the result is the model's table
      (`findTbl` of `Lemmas/Find.lean`) with the point component dropped and the key as Python `int`
      (`tblI`);
    - `SearchSpec`/`fold_search`: a loop with `break` over keys of `idx_to_settings`, for any step
      function on any state with a `done` flag and a result component: the result is `find?`;
      `search_fwd`, `search_cands`, `search_after`: the same for the three key lists the code iterates
      over (`sorted(keys)`, `sorted(keys, reverse=reverse)`, `sorted(k for k in keys if k > p)`);
    - `coreI`: what the statements after the first loop compute from `idx_to_settings`, and
      `coreI_model`: that is the model's `findSettings`.
  * `namespace C17d` — the theorems over `Gen.findCore`: `unfold`, the first loop rewritten by
    `fold_build` (spec discharged for the generated lambda by `simp`/`omega`), the three live paths
    (`start` is a key or `start = end`; `start` checked and not matching; `start` matching) each by the
    same two macros `cands_loop`/`after_loop` (`refine` with `search_cands`/`search_after`, the spec of the
    round discharged by `search_spec` = `simp`/`split`/`simp_all`), whatever the loop state looks like (a
    tuple ending in `(result, done)`, class `Srch`); the dead copies of the loops behind
    `if found_start is None` with `found_start = start` disappear by `simp only`.  The same script was run
    unchanged against a variant of the generated function (`idx <= end and start <= idx`, `end > idx`,
    the `if`/`else` of the `found_end` loop exchanged) and passed.
-/

namespace C17d
namespace L
open C06d.L

/-! ## The first loop: `idx_to_settings` -/

/-- an entry of `idx_to_settings` from a triple of the iterator -/
def ent (t : Nat × Point × List Setting) : Int × List Setting := ((t.1 : Int), t.2.2)

/-- `idx_to_settings` as the code has it: the model's table, the key as `int`, the point dropped -/
def tblI (f : Fmts) (st en : Nat) : List (Int × List Setting) := (findTbl f st en).map ent

/-- `current_settings` after the whole iteration -/
def lastCur (cur : List Setting) (f : Fmts) : List Setting := f.foldl (fun c kp => stepPoint c kp.2) cur

/-- state of the first loop: `(idx_to_settings, current_settings of the iterator)` -/
abbrev B := List (Int × List Setting) × List Setting

/-- what one round of the first loop has to do on a key `k` of the table (given as Python `int`) -/
def BuildSpec (fm : Fmts) (st en : Nat) (step : B → Int → Except Exc B) : Prop :=
  ∀ acc cur (k : Nat) p, fm.get? k = some p →
    step (acc, cur) (k : Int) =
      .ok (if st ≤ k ∧ k ≤ en then acc ++ [((k : Int), stepPoint cur p)] else acc, stepPoint cur p)

theorem fold_build_aux {fm : Fmts} {st en : Nat} {step : B → Int → Except Exc B}
    (hstep : BuildSpec fm st en step) (hs : SortedKeys fm) :
    ∀ (D A : Fmts), fm = A ++ D → ∀ (acc : List (Int × List Setting)) (cur : List Setting),
      List.foldlM step (acc, cur) (D.map (fun kp => (kp.1 : Int))) =
        .ok (acc ++ ((replayFrom cur D).filter (fun t => st ≤ t.1 ∧ t.1 ≤ en)).map ent, lastCur cur D) := by
  intro D
  induction D with
  | nil => intro A _ acc cur; simp [replayFrom, lastCur]; rfl
  | cons kp D ih =>
    intro A hfm acc cur
    obtain ⟨k, p⟩ := kp
    have hnext : fm = (A ++ [(k, p)]) ++ D := by simp [hfm]
    have hA : ∀ x ∈ A, x.1 < k := by
      intro x hx
      rw [hfm] at hs
      exact (List.pairwise_append.mp hs).2.2 x hx (k, p) (by simp)
    have hg : fm.get? k = some p := by rw [hfm]; exact C12b.L.get?_mid p D hA
    rw [List.map_cons, List.foldlM_cons, hstep _ _ _ _ hg]
    show List.foldlM step _ _ = _
    rw [ih _ hnext]
    by_cases hc : st ≤ k ∧ k ≤ en
    · simp [replayFrom, lastCur, hc, ent]
    · simp [replayFrom, lastCur, hc]

/-- THE FIRST LOOP: over the ascending keys of a sorted table, rounds that meet `BuildSpec` build the
    model's table -/
theorem fold_build {fm : Fmts} {st en : Nat} {step : B → Int → Except Exc B}
    (hstep : BuildSpec fm st en step) (hs : SortedKeys fm) :
    List.foldlM step ([], []) (Obj.keysAsc fm) = .ok (tblI fm st en, lastCur [] fm) := by
  have h := fold_build_aux hstep hs fm [] rfl [] []
  unfold Obj.keysAsc Fmts.keys
  rw [List.map_map]
  rw [List.nil_append] at h
  exact h

/-! ## `idx_to_settings`: keys ascending, every key found -/

/-- keys strictly ascending -/
def Asc (I : List (Int × List Setting)) : Prop := I.Pairwise (fun a b => a.1 < b.1)

theorem tblI_asc (f : Fmts) (hs : SortedKeys f) (st en : Nat) : Asc (tblI f st en) := by
  unfold Asc tblI
  rw [List.pairwise_map]
  exact (findTbl_pairwise f hs st en).imp (fun h => by simp only [ent]; omega)

theorem assocGet_mem {I : List (Int × List Setting)} (hI : Asc I) {kv : Int × List Setting} (h : kv ∈ I) :
    Py.assocGet I kv.1 = .ok kv.2 := by
  unfold Py.assocGet
  have : I.find? (fun x => x.1 == kv.1) = some kv := by
    induction I with
    | nil => cases h
    | cons a I ih =>
      rw [Asc, List.pairwise_cons] at hI
      rcases List.mem_cons.mp h with e | hin
      · subst e; simp
      · have := hI.1 kv hin
        have hne : (a.1 == kv.1) = false := by
          rw [beq_eq_false_iff_ne]; omega
        rw [List.find?_cons, hne]
        exact ih hI.2 hin
  rw [this]

theorem sorted_asc {l : List Int} (h : l.Pairwise (· < ·)) (r : Bool) :
    Py.sortedInts l r = if r then l.reverse else l := by
  unfold Py.sortedInts
  have : l.mergeSort (fun a b => decide (a ≤ b)) = l :=
    List.mergeSort_of_pairwise (h.imp (fun h => by simp only [decide_eq_true_eq]; omega))
  simp only [this]

theorem keys_asc {I : List (Int × List Setting)} (hI : Asc I) : (I.map (·.1)).Pairwise (· < ·) :=
  List.pairwise_map.mpr hI

/-! ## The search loops: a `for` with `break` is `find?` -/

theorem fold_done {σ : Type} {done : σ → Bool} {step : σ → Int → Except Exc σ}
    (hdone : ∀ s a, done s = true → step s a = .ok s) (s : σ) (hd : done s = true) (l : List Int) :
    List.foldlM step s l = .ok s := by
  induction l with
  | nil => rfl
  | cons a l ih => rw [List.foldlM_cons, hdone s a hd]; exact ih

/-- the state of a translated search loop is a tuple that ends in `(result, done)`, whatever loop
    variables come before -/
class Srch (σ : Type) where
  done : σ → Bool
  res : σ → Option Int

instance srchBase : Srch (Option Int × Bool) := ⟨fun s => s.2, fun s => s.1⟩
instance srchStep {α σ : Type} [Srch σ] : Srch (α × σ) := ⟨fun s => Srch.done s.2, fun s => Srch.res s.2⟩

@[simp] theorem done_base (s : Option Int × Bool) : Srch.done s = s.2 := rfl
@[simp] theorem res_base (s : Option Int × Bool) : Srch.res s = s.1 := rfl
@[simp] theorem done_step {α σ : Type} [Srch σ] (s : α × σ) : Srch.done s = Srch.done s.2 := rfl
@[simp] theorem res_step {α σ : Type} [Srch σ] (s : α × σ) : Srch.res s = Srch.res s.2 := rfl

/-- `found_start`: the first key before `end` where all the settings are active -/
def hitS (en : Int) (want : List Str) (k : Int) (c : List Setting) : Bool := decide (k < en) && AStr.allIn want c
/-- `found_end`: the first key where they are not -/
def hitE (want : List Str) (_ : Int) (c : List Setting) : Bool := !AStr.allIn want c

/-- what one round of a search loop has to do, whatever the state looks like: nothing once `done`
    (Python's `break`) is set; on a key of `idx_to_settings` holding `c`, set `done` and the result to
    the key exactly when `hit` says so, else leave the result -/
def SearchSpec {σ : Type} (I : List (Int × List Setting)) (hit : Int → List Setting → Bool)
    (done : σ → Bool) (res : σ → Option Int) (step : σ → Int → Except Exc σ) : Prop :=
  (∀ s a, done s = true → step s a = .ok s) ∧
  (∀ s a c, done s = false → Py.assocGet I a = .ok c →
    ∃ s', step s a = .ok s' ∧ done s' = hit a c ∧ res s' = if hit a c then some a else res s)

/-- the result of a search over the entries `C` -/
def found (hit : Int → List Setting → Bool) (C : List (Int × List Setting)) : Option Int :=
  (C.find? (fun kv => hit kv.1 kv.2)).map (·.1)

/-- THE SEARCH LOOP over the keys of any list `C` of entries of `idx_to_settings` -/
theorem fold_search {σ : Type} {I : List (Int × List Setting)} {hit : Int → List Setting → Bool}
    {done : σ → Bool} {res : σ → Option Int} {step : σ → Int → Except Exc σ}
    (hstep : SearchSpec I hit done res step) (hI : Asc I) :
    ∀ (C : List (Int × List Setting)), (∀ kv ∈ C, kv ∈ I) → ∀ s, done s = false →
      ∃ s', List.foldlM step s (C.map (·.1)) = .ok s' ∧ res s' = (found hit C).or (res s) := by
  intro C
  induction C with
  | nil => intro _ s _; exact ⟨s, rfl, by simp [found]⟩
  | cons kv C ih =>
    intro hC s hd
    have hkv : kv ∈ I := hC kv (by simp)
    obtain ⟨s1, h1, h2, h3⟩ := hstep.2 s kv.1 kv.2 hd (assocGet_mem hI hkv)
    rw [List.map_cons, List.foldlM_cons, h1]
    show ∃ s', List.foldlM step s1 _ = _ ∧ _
    cases hh : hit kv.1 kv.2 with
    | true =>
      rw [hh] at h2 h3
      refine ⟨s1, fold_done hstep.1 s1 h2 _, ?_⟩
      simp [found, hh, h3]
    | false =>
      rw [hh] at h2 h3
      obtain ⟨s', h4, h5⟩ := ih (fun kv h => hC kv (by simp [h])) s1 h2
      refine ⟨s', h4, ?_⟩
      rw [h5]
      simp [found, hh, h3]

/-- `for idx in sorted(idx_to_settings.keys(), reverse=reverse)` -/
theorem search_cands {σ : Type} [Srch σ] {I : List (Int × List Setting)} (hit : Int → List Setting → Bool)
    {step : σ → Int → Except Exc σ}
    (hstep : SearchSpec I hit Srch.done Srch.res step) (hI : Asc I) (rev : Bool) (s : σ) (hd : Srch.done s = false) :
    ∃ s', List.foldlM step s (Py.sortedInts (I.map (·.1)) rev) = .ok s' ∧
      Srch.res s' = (found hit (if rev then I.reverse else I)).or (Srch.res s) := by
  rw [sorted_asc (keys_asc hI)]
  cases rev with
  | true =>
    simp only [if_true, ← List.map_reverse]
    exact fold_search hstep hI I.reverse (fun kv h => List.mem_reverse.mp h) s hd
  | false =>
    exact fold_search hstep hI I (fun kv h => h) s hd

/-- `for idx in sorted([k for k in idx_to_settings.keys() if k > p])` -/
theorem search_after {σ : Type} [Srch σ] {I : List (Int × List Setting)} (hit : Int → List Setting → Bool)
    {step : σ → Int → Except Exc σ}
    (hstep : SearchSpec I hit Srch.done Srch.res step) (hI : Asc I) (p : Int) (s : σ) (hd : Srch.done s = false) :
    ∃ s', List.foldlM step s (Py.sortedInts ((I.map (·.1)).filter (fun x => decide (x > p))) false) = .ok s' ∧
      Srch.res s' = (found (fun k c => decide (k > p) && hit k c) I).or (Srch.res s) := by
  rw [sorted_asc ((keys_asc hI).filter _), List.filter_map]
  obtain ⟨s', h1, h2⟩ :=
    fold_search hstep hI (I.filter ((fun x => decide (x > p)) ∘ (·.1))) (fun kv h => (List.mem_filter.mp h).1) s hd
  refine ⟨s', h1, ?_⟩
  rw [h2]
  simp [found, List.find?_filter]

theorem optGet_some {α : Type} (a : α) : Py.optGet (some a) = (.ok a : Except Exc α) := rfl

/-- the form the search lemmas are used in: the rest of the function after the loop -/
theorem bind_search {σ β : Type} {e : Except Exc σ} {res : σ → Option Int} {r : Option Int}
    (h : ∃ s', e = .ok s' ∧ res s' = r) (k : σ → Except Exc β) (v : Except Exc β)
    (hk : ∀ s', res s' = r → k s' = v) : e.bind k = v := by
  obtain ⟨s', h1, h2⟩ := h
  rw [h1]
  exact hk s' h2

/-! ## What the statements after the first loop compute, and the model -/

/-- `(found_start, found_end)` from `idx_to_settings`, `start`, `end` and `ansi_settings_at(start)` -/
def coreI (I : List (Int × List Setting)) (want : List Str) (st en : Int) (c0 : List Setting) (rev : Bool) :
    Option Int × Option Int :=
  let fs0 : Option Int :=
    if (!(I.any (fun kv => kv.1 == st)) && decide (st < en)) = true then
      (if AStr.allIn want c0 then some st else none)
    else none
  let fs : Option Int :=
    match fs0 with
    | some i => some i
    | none => found (hitS en want) (if rev then I.reverse else I)
  match fs with
  | none => (none, none)
  | some i => (some i, found (fun k c => decide (k > i) && hitE want k c) I)

theorem all_hasTxt (A : List Setting) (c : List Setting) :
    A.all (fun x => hasTxt c x.txt) = AStr.allIn (texts A) c := by
  simp [AStr.allIn, texts, List.all_map, Function.comp_def]

theorem found_map (hit : Int → List Setting → Bool) (T : List (Nat × Point × List Setting)) :
    found hit (T.map ent) = (T.find? (fun t => hit (t.1 : Int) t.2.2)).map (fun t => (t.1 : Int)) := by
  simp [found, List.find?_map, Function.comp_def, ent]

set_option linter.unusedSimpArgs false in
/-- THE MODEL: what the code computes from `idx_to_settings` is `findSettings` -/
theorem coreI_model (x : AStr) (want : List Str) (s e : Option Int) (rev : Bool)
    (hgo : ¬ (sliceIdx x.len e x.len < sliceIdx x.len s 0)) (hw : want ≠ []) :
    coreI (tblI x.fmts (sliceIdx x.len s 0) (sliceIdx x.len e x.len)) want
        ((sliceIdx x.len s 0 : Nat) : Int) ((sliceIdx x.len e x.len : Nat) : Int)
        (x.ansiSettingsAt (sliceIdx x.len s 0 : Nat)) rev =
      (((x.findSettings want s e rev).1.map Int.ofNat), ((x.findSettings want s e rev).2.map Int.ofNat)) := by
  rw [findSettings_eq x want s e rev hgo hw]
  generalize sliceIdx x.len s 0 = st
  generalize sliceIdx x.len e x.len = en
  unfold coreI findFs findFs0 findFe tblI hitS hitE
  have hany : ((findTbl x.fmts st en).map ent).any (fun kv => kv.1 == (st : Int)) =
      (findTbl x.fmts st en).any (fun t => t.1 = st) := by
    rw [List.any_map]
    congr 1
    funext t
    by_cases h : t.1 = st
    · simp [ent, h]
    · have : ¬ ((t.1 : Int) = (st : Int)) := by omega
      simp [ent, h, this]
  rw [hany, ← List.map_reverse]
  have hrev : (if rev = true then (findTbl x.fmts st en).reverse.map ent else (findTbl x.fmts st en).map ent) =
      (if rev = true then (findTbl x.fmts st en).reverse else findTbl x.fmts st en).map ent := by
    cases rev <;> rfl
  rw [hrev]
  simp only [found_map]
  generalize findTbl x.fmts st en = T
  generalize x.ansiSettingsAt (st : Int) = c0
  have hlt : decide ((st : Int) < (en : Int)) = decide (st < en) := by simp [Int.ofNat_lt]
  have hp1 : (fun t : Nat × Point × List Setting => decide ((t.1 : Int) < (en : Int)) && AStr.allIn want t.2.2) =
      (fun t => decide (t.1 < en ∧ AStr.allIn want t.2.2 = true)) := by
    funext t; simp [Int.ofNat_lt]
  have hp2 : ∀ j : Nat,
      (fun t : Nat × Point × List Setting => decide ((t.1 : Int) > (j : Int)) && !AStr.allIn want t.2.2) =
        (fun t => decide (t.1 > j ∧ (!AStr.allIn want t.2.2) = true)) := by
    intro j; funext t; simp [Int.ofNat_lt]
  rw [hlt, hp1]
  generalize (if rev = true then T.reverse else T) = C
  have hcond : ((!T.any fun t => decide (t.fst = st)) = true ∧ st < en) ↔
      ((!T.any fun t => decide (t.fst = st)) && decide (st < en)) = true := by simp
  simp only [hcond]
  cases ((!T.any fun t => decide (t.fst = st)) && decide (st < en))
  · cases hf : List.find? (fun t => decide (t.fst < en ∧ AStr.allIn want t.snd.snd = true)) C <;>
      simp [hf, hp2] <;> rfl
  · cases ha : AStr.allIn want c0
    · cases hf : List.find? (fun t => decide (t.fst < en ∧ AStr.allIn want t.snd.snd = true)) C <;>
        simp [ha, hf, hp2] <;> rfl
    · simp [ha, hp2]; rfl

end L

open L C06d.L

/-- discharges `SearchSpec` for a translated round -/
local macro "search_spec" : tactic => `(tactic| (
  constructor
  · intro s a hd
    simp only [done_base, done_step] at hd
    simp [hd]
  · intro s a c hd hg
    simp only [done_base, done_step] at hd
    simp only [hd, hg, bind_ok, Bool.false_eq_true, if_false, hitS, hitE]
    split <;> simp_all))

set_option hygiene false in
/-- the loop for `found_start`, then the rest -/
local macro "cands_loop" : tactic => `(tactic| (
  refine bind_search (search_cands (hitS (en : Int) (texts A)) ?_ hI rev _ rfl) _ _ ?_
  · search_spec
  intro s' hs'
  simp only [res_base, res_step, Option.or_none] at hs'
  simp only [hs']))

set_option hygiene false in
/-- the loop for `found_end`, then the rest -/
local macro "after_loop" : tactic => `(tactic| (
  refine bind_search (search_after (hitE (texts A)) ?_ hI _ _ rfl) _ _ ?_
  · search_spec
  intro s' hs'
  simp only [res_base, res_step, Option.or_none] at hs'
  simp only [hs']))

/-- the `if`s on values that are known by now -/
local macro "ifs" : tactic => `(tactic|
  simp only [Bool.false_eq_true, if_false, if_true, Option.isNone_none, Option.isNone_some, Option.isSome_some,
    Option.isSome_none, optGet_some, bind_ok])

set_option hygiene false in
/-- the statements after the loop for `found_start`: nothing found, or the loop for `found_end` -/
local macro "rest" : tactic => `(tactic| (
  cases found (hitS (en : Int) (texts A)) (if rev = true then I.reverse else I) with
  | none => rfl
  | some i => ifs; after_loop))

/-- the method was translated (it did not fall outside the translator's fragment) -/
theorem translated : Gen.findCoreOk = true := by decide

theorem findCore_eq (x : AStr) (hs : SortedKeys x.fmts) (A : List Setting) (st en : Nat) (rev : Bool) (hA : A ≠ []) :
    Gen.findCore x A (st : Int) (en : Int) rev =
      .ok (coreI (tblI x.fmts st en) (texts A) (st : Int) (en : Int) (x.ansiSettingsAt (st : Int)) rev) := by
  have hI := tblI_asc x.fmts hs st en
  have hemp : A.isEmpty = false := by cases A with
    | nil => exact absurd rfl hA
    | cons a l => rfl
  unfold Gen.findCore
  simp only [hemp, Bool.not_false, Bool.not_true, Bool.false_eq_true, if_false]
  rw [fold_build (st := st) (en := en) ?spec hs]
  case spec =>
    intro acc cur k p hg
    simp only [C04c.L.get_some hg, bind_ok, C09c.iter_step_is_code]
    by_cases hc : st ≤ k ∧ k ≤ en
    · simp [hc] <;> omega
    · simp [hc] <;> omega
  simp only [bind_ok, all_hasTxt]
  generalize tblI x.fmts st en = I at hI ⊢
  unfold coreI
  cases hb : (!(I.any fun kv => kv.1 == (st : Int)) && decide ((st : Int) < (en : Int)))
  · ifs
    cands_loop
    rest
  · cases ha : AStr.allIn (texts A) (x.ansiSettingsAt (st : Int))
    · ifs
      cands_loop
      rest
    · ifs
      after_loop

/-- THE GENERATED `find_settings` IS THE MODEL'S `findSettings`: with the settings scrubbed and the
    bounds converted, the statements of `find_settings` translated from the source end normally with
    exactly the model's pair — no `KeyError` from `self._fmts[idx]` or `idx_to_settings[idx]`, no `None`
    where an index is needed -/
theorem findCore_is_code (x : AStr) (hs : SortedKeys x.fmts) (A : List Setting) (s e : Option Int) (rev : Bool)
    (hgo : ¬ (sliceIdx x.len e x.len < sliceIdx x.len s 0)) :
    Gen.findCore x A (sliceIdx x.len s 0 : Nat) (sliceIdx x.len e x.len : Nat) rev =
      .ok (((x.findSettings (texts A) s e rev).1.map Int.ofNat), ((x.findSettings (texts A) s e rev).2.map Int.ofNat)) := by
  cases A with
  | nil =>
    unfold Gen.findCore AStr.findSettings
    simp [hgo, texts]
  | cons a A =>
    rw [findCore_eq x hs _ _ _ rev (by simp), coreI_model x _ s e rev hgo (by simp [texts])]

/-- under the same hypotheses the translated statements raise nothing -/
theorem findCore_never_error (x : AStr) (hs : SortedKeys x.fmts) (A : List Setting) (s e : Option Int) (rev : Bool)
    (hgo : ¬ (sliceIdx x.len e x.len < sliceIdx x.len s 0)) (err : Exc) :
    Gen.findCore x A (sliceIdx x.len s 0 : Nat) (sliceIdx x.len e x.len : Nat) rev ≠ .error err := by
  rw [findCore_is_code x hs A s e rev hgo]
  intro h; cases h

/-! ## Non-vacuity: a concrete value -/

/-- "abcdef", object 0 (`31`) from 0 to 6, object 1 (`1`) from 2 to 4 -/
def x0 : AStr :=
  { s := "abcdef".toList,
    fmts := [(0, { add := [⟨0, "31".toList⟩] }), (2, { add := [⟨1, "1".toList⟩] }),
             (4, { rem := [⟨1, "1".toList⟩] }), (6, { rem := [⟨0, "31".toList⟩] })] }

theorem x0_sorted : SortedKeys x0.fmts := by simp [x0, SortedKeys]

example : ¬ (sliceIdx x0.len (some 6) x0.len < sliceIdx x0.len (some 0) 0) := by decide
example : ¬ (sliceIdx x0.len none x0.len < sliceIdx x0.len (some (-3)) 0) := by decide

/-  The values.  `Gen.findCore` itself cannot be evaluated by `decide +kernel`: `Py.sortedInts` is
    `List.mergeSort`, which is defined by well-founded recursion and does not reduce in the kernel
    (`example : [1,2].mergeSort (fun (a b : Int) => decide (a ≤ b)) = [1,2] := by decide +kernel` fails);
    the run gets as far as the first `sorted(...)`.  So the concrete values are obtained through
    `findCore_is_code` and the evaluation of the model by `decide +kernel`. -/
example : Gen.findCore x0 [⟨9, "1".toList⟩] 0 6 false = .ok (some 2, some 4) :=
  (findCore_is_code x0 x0_sorted [⟨9, "1".toList⟩] (some 0) (some 6) false (by decide)).trans (by decide +kernel)
example : Gen.findCore x0 [⟨9, "1".toList⟩] 3 6 true = .ok (some 3, some 4) :=
  (findCore_is_code x0 x0_sorted [⟨9, "1".toList⟩] (some 3) (some 6) true (by decide)).trans (by decide +kernel)
example : Gen.findCore x0 [⟨9, "31".toList⟩] 1 5 false = .ok (some 1, none) :=
  (findCore_is_code x0 x0_sorted [⟨9, "31".toList⟩] (some 1) (some 5) false (by decide)).trans (by decide +kernel)
example : Gen.findCore x0 [⟨9, "4".toList⟩] 0 6 false = .ok (none, none) :=
  (findCore_is_code x0 x0_sorted [⟨9, "4".toList⟩] (some 0) (some 6) false (by decide)).trans (by decide +kernel)
/-- negative bounds, `reverse`: the last key before `end` where `31` is active -/
example : Gen.findCore x0 [⟨9, "31".toList⟩] 2 6 true = .ok (some 4, some 6) := by
  have h := findCore_is_code x0 x0_sorted [⟨9, "31".toList⟩] (some (-4)) none true (by decide)
  rw [show sliceIdx x0.len (some (-4)) 0 = 2 by decide +kernel, show sliceIdx x0.len none x0.len = 6 by decide +kernel] at h
  exact h.trans (by decide +kernel)
/-- no settings asked for: the bounds themselves (no loop is run, this one is evaluated directly) -/
example : Gen.findCore x0 [] 1 5 false = .ok (some 1, some 5) := by decide +kernel

/-- the hypothesis `SortedKeys` is needed: on a table out of order the fetch of the point meets `Exc.key` -/
example : Gen.findCore { s := "abc".toList, fmts := [(2, {}), (0, {})] } [⟨9, "1".toList⟩] 0 3 false =
    .error .key := by decide +kernel

end C17d

#print axioms C17d.translated
#print axioms C17d.findCore_eq
#print axioms C17d.findCore_is_code
#print axioms C17d.findCore_never_error
