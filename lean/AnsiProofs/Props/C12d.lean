import AnsiModel.Render
import AnsiModel.Generated.Regexes
import AnsiProofs.Lemmas.RegexEquiv
/-
  Property C12, part d — the six regular expressions of the format specification are the source's.

  `Gen.regex_to_str_1` and `Gen.regex_apply_string_format_1 … _5` are the patterns of the `re.match` /
  `re.search` calls of `to_str` and `_apply_string_format`, parsed with Python's own `re._parser` and
  translated into the model's `Re` on every run (harness/pyre.py; `Gen.regexSources` keeps the texts).
  The model's hand-written `Render.reSpec`, `Render.reLeft`, `Render.reAligned '>'`, `Render.reAligned '^'`
  return, on EVERY string, the same `Re.matchStart` (the same match/no match and the same list of
  captured groups), so the grammar theorems of C12/C12b/C12c are about what the source says now.

  Patterns 4 and 5 of `_apply_string_format` (`^[<>\^]?[+-][0-9]*$`, `^[<>\^]?[ ][0-9]*$`) have NO copy in
  the model: in the source they only choose between three `raise ValueError(<message>)`, and the model's
  `PyErr.valueError` carries no message (`Render.applyStringFormat` answers `.error .valueError` as soon as
  the first three have failed).  They are pinned here to `reSignOnly` / `reSpaceOnly`, written with the
  model's class predicates, so that a change of these patterns is seen (this file stops building); that
  both outcomes of either test end in `raise ValueError` is a fact about the statements around the calls,
  which this translation does not cover.
-/
namespace C12d

open RegexEquivL

/-- every pattern of the three functions was inside the translated fragment -/
theorem translated : Gen.regexesOk = true := by decide

/-- the call sites found, in source order (9 today; a tenth one would show here) -/
theorem sites : Gen.regexSources.map (·.1) =
    ["regex_apply_string_format_1", "regex_apply_string_format_2", "regex_apply_string_format_3",
     "regex_apply_string_format_4", "regex_apply_string_format_5", "regex_to_str_1",
     "regex_parse_rgb_string_1", "regex_parse_rgb_string_2", "regex_parse_rgb_string_3"] := by rfl

/-- `to_str`: `re.match(r'(^.?[-\+]?[<>\^]?[0-9]*)(:.*)?$', format_spec)` is the model's `reSpec` -/
theorem spec_is_code : ∀ s, Re.matchStart Gen.regex_to_str_1 s = Re.matchStart Render.reSpec s := by
  unfold Gen.regex_to_str_1
  re_equiv

/-- `_apply_string_format`, first test: `^(?:(.?)([+-]?)<)?([0-9]*)$` is the model's `reLeft` -/
theorem left_is_code : ∀ s, Re.matchStart Gen.regex_apply_string_format_1 s = Re.matchStart Render.reLeft s := by
  unfold Gen.regex_apply_string_format_1
  re_equiv

/-- second test: `^(.?)([+-]?)>([0-9]*)$` is the model's `reAligned '>'` -/
theorem right_is_code :
    ∀ s, Re.matchStart Gen.regex_apply_string_format_2 s = Re.matchStart (Render.reAligned '>') s := by
  unfold Gen.regex_apply_string_format_2
  re_equiv

/-- third test: `^(.?)([+-]?)\^([0-9]*)$` is the model's `reAligned '^'` -/
theorem center_is_code :
    ∀ s, Re.matchStart Gen.regex_apply_string_format_3 s = Re.matchStart (Render.reAligned '^') s := by
  unfold Gen.regex_apply_string_format_3
  re_equiv

/-- `^[<>\^]?[+-][0-9]*$` with the model's predicates (no copy in the model: see the header) -/
def reSignOnly : Re := .seq (.opt (.cls Render.align)) (.seq (.cls Render.sign) (.seq (.star Py.isDigit) .eos))

/-- `^[<>\^]?[ ][0-9]*$` -/
def reSpaceOnly : Re := .seq (.opt (.cls Render.align)) (.seq (.cls (· == ' ')) (.seq (.star Py.isDigit) .eos))

/-- fourth test (only selects the message of the ValueError) -/
theorem sign_only_is_code : ∀ s, Re.matchStart Gen.regex_apply_string_format_4 s = Re.matchStart reSignOnly s := by
  unfold Gen.regex_apply_string_format_4 reSignOnly
  re_equiv

/-- fifth test (only selects the message of the ValueError) -/
theorem space_only_is_code : ∀ s, Re.matchStart Gen.regex_apply_string_format_5 s = Re.matchStart reSpaceOnly s := by
  unfold Gen.regex_apply_string_format_5 reSpaceOnly
  re_equiv

/-- the two message-selecting tests on concrete specs (the first is rejected by the left-justify pattern) -/
theorem message_tests_examples :
    (Re.matchStart Gen.regex_apply_string_format_4 "<+5".toList).isSome = true ∧
    (Re.matchStart Render.reLeft "<+5".toList).isSome = false ∧
    (Re.matchStart Gen.regex_apply_string_format_5 " 5".toList).isSome = true ∧
    (Re.matchStart Gen.regex_apply_string_format_5 "^ ".toList).isSome = true := by decide +kernel

/-! the generated terms run: groups of the source's patterns on concrete specs -/
example : (Re.matchStart Gen.regex_to_str_1 "*-^10:red;bold".toList).map (fun c => (Re.group c 1, Re.group c 2)) =
    some (some "*-^10".toList, some ":red;bold".toList) := by decide +kernel
example : (Re.matchStart Gen.regex_apply_string_format_1 "*-<10".toList).map
      (fun c => (Re.group c 1, Re.group c 2, Re.group c 3)) =
    some (some "*".toList, some "-".toList, some "10".toList) := by decide +kernel
example : (Re.matchStart Gen.regex_apply_string_format_1 "12".toList).map
      (fun c => (Re.group c 1, Re.group c 2, Re.group c 3)) = some (none, none, some "12".toList) := by decide +kernel
example : Re.matchStart Gen.regex_apply_string_format_2 "*-<10".toList = none := by decide +kernel
example : (Re.matchStart Gen.regex_apply_string_format_3 "^^3\n".toList).map (fun c => Re.group c 1) =
    some (some "^".toList) := by decide +kernel

end C12d

#print axioms C12d.translated
#print axioms C12d.sites
#print axioms C12d.spec_is_code
#print axioms C12d.left_is_code
#print axioms C12d.right_is_code
#print axioms C12d.center_is_code
#print axioms C12d.sign_only_is_code
#print axioms C12d.space_only_is_code
#print axioms C12d.message_tests_examples
