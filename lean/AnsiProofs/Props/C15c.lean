import AnsiModel.Render
import AnsiModel.Generated.Wrappers
/-
  Property C15, part c — `is_formatting_valid` / `is_formatting_parsable` / `_AnsiSettingPoint.__bool__`,
  from the source.  The three are translated on every run by loop idiom (harness/pylist.py: nested
  universal loop "if not …: return False … return True" becomes `all`); the theorems tie them to the
  model's `isFormattingValid`, `isFormattingParsable`, `Point.nonEmpty`.  (`setting.valid` /
  `setting.parsable` themselves are the model's `SettingTxt.valid/parsable`, proved against the
  grammar in C15.lean.)
-/
namespace C15c

theorem translated : Gen.isFormattingValidOk = true ∧ Gen.isFormattingParsableOk = true ∧ Gen.pointBoolOk = true := by
  decide

/-- every setting that *starts* somewhere is asked, none that only stops -/
theorem valid_is_code (x : AStr) : Gen.isFormattingValid x.fmts = x.isFormattingValid := by
  rw [Bool.eq_iff_iff]
  simp [Gen.isFormattingValid, AStr.isFormattingValid] <;> grind

theorem parsable_is_code (x : AStr) : Gen.isFormattingParsable x.fmts = x.isFormattingParsable := by
  rw [Bool.eq_iff_iff]
  simp [Gen.isFormattingParsable, AStr.isFormattingParsable] <;> grind

/-- a marker point is "something" when it starts or stops a setting -/
theorem point_bool_is_code (p : Point) : Gen.pointBool p = p.nonEmpty := by
  rw [Bool.eq_iff_iff]
  simp [Gen.pointBool, Point.nonEmpty] <;> grind

end C15c
