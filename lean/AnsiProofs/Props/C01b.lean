import AnsiProofs.Props.C17c
import AnsiModel.Generated.Methods.RenderCore
/-
  Property C01, part b — the *generated* (statement-by-statement translated) rendering loop of
  `AnsiString.to_str` (`Gen.renderCore` of `AnsiModel/Generated/Methods/RenderCore.lean`: the statements
  after the format spec has been applied and `optimize` has been resolved to
  `optimize and obj.is_optimizable()`) computes exactly what the hand-written model says
  (`Render.render`, `AnsiModel/Render.lean`: the fold of `Render.step` over the triples of the iterator
  before the first key `≥ len`) on values whose table is sorted; the outcome `Exc.key` (the fetch
  `obj._fmts[idx]` of the iterator) never happens there.

  The file is split in two:

  * `namespace C01b.L` — everything that does not mention `Gen.renderCore`:
    - `toS`: the model's loop state `Render.St` + the iterator's `current_settings` + the `break` flag as
      the tuple `(out_str, last_idx, settings_exist, first_iter, current_settings_dict, cur_, done_)` of
      the translated loop; `round`: one round of the `for` loop (the `break` at a key `≥ len`, else the
      model's `Render.step`); `loopS`: the rounds over a table, nothing changing once `done` is set;
    - `RoundSpec fm s opt rs step`: what a step function has to do to be that round — a no-op on a
      state with `done`, and `round` on a key of the table `fm` given as the Python `int`;
    - `fold_loop`: for *any* step function meeting `RoundSpec`, `List.foldlM` over the ascending keys
      of a sorted table is `loopS` (here `SortedKeys` is used: the key under the cursor is found by
      `Fmts.get?`, which stops early, because everything before it is smaller);
    - `loopS_render`: `loopS` is the model's `foldl step` over `takeWhile (·.1 < len)` of the triples;
    - glue for the statements of the round, each proved once: `ite_ok_bind` (an `if` statement both
      branches of which end normally), `ite_ok_any`, `ite_band` (`a and b`), `foldlM_filter_map`,
      `foldlM_filter_map_not` (the inner loop over
      the keys of the old dictionary), `dictNe_eq` (`k not in d or d[k] != v`), `slice_mid`/`slice_end`
      (`obj._s[last_idx:idx]`, `obj._s[last_idx:]`).
  * `namespace C01b` — the theorems over `Gen.renderCore`: `unfold`, the loop rewritten by `fold_loop`
    with the spec of the round discharged for the generated lambda by `simp only` with the glue, case
    distinction on the flags and `simp`; the statements after the loop by one `simp only`.  The same
    script was run unchanged against two rewritten variants of the generated function (`not idx < len`,
    `len(optimized_codes_str) == 0`, `reset_start and (first_iter and 0 < idx)`,
    `len(codes_str) > len(optimized_codes_str)`; the inner loop written with `continue`, the
    `if optimize:` block yielding `(codes_str, apply_to_out_str, current_settings_dict)` and the tail
    `if idx == 0 and reset_start … if apply_to_out_str …` following it once instead of being copied
    into its branches) and passed.
-/

namespace C01b
namespace L
open C06d.L

/-- the state of the translated loop:
    `(out_str, last_idx, settings_exist, first_iter, current_settings_dict, cur_, done_)` -/
abbrev S := Str × Int × Bool × Bool × PyDict × List Setting × Bool

/-- the model's state of the rendering loop, the iterator's `current_settings` and the `break` flag as
    the state of the translated loop -/
def toS (st : Render.St) (cur : List Setting) (d : Bool) : S :=
  (st.out, (st.last : Int), st.exist, st.first, st.dict, cur, d)

/-- one round of the loop of `to_str` on the key `k` holding the point `p`, the loop still running -/
def round (s : Str) (opt rs : Bool) (st : Render.St) (cur : List Setting) (k : Nat) (p : Point) :
    Render.St × List Setting × Bool :=
  let cur' := stepPoint cur p
  if k ≥ s.length then (st, cur', true) else (Render.step s opt rs st (k, p, cur'), cur', false)

/-- the whole loop over the entries of a table; once `done` is set nothing changes -/
def loopS (s : Str) (opt rs : Bool) : Render.St × List Setting × Bool → Fmts → Render.St × List Setting × Bool
  | q, [] => q
  | (st, cur, true), _ :: _ => (st, cur, true)
  | (st, cur, false), (k, p) :: rest => loopS s opt rs (round s opt rs st cur k p) rest

theorem loopS_done (s : Str) (opt rs : Bool) (st : Render.St) (cur : List Setting) (B : Fmts) :
    loopS s opt rs (st, cur, true) B = (st, cur, true) := by
  cases B <;> rfl

/-- what one round of the translated loop has to do, whatever it looks like: nothing once `done` is
    set; otherwise, on a key `k` of the table `fm` (given as the `int` it is in Python) holding `p`,
    what `round` says -/
def RoundSpec (fm : Fmts) (s : Str) (opt rs : Bool) (step : S → Int → Except Exc S) : Prop :=
  (∀ st cur idx, step (toS st cur true) idx = .ok (toS st cur true)) ∧
  (∀ st cur (k : Nat) p, fm.get? k = some p →
    step (toS st cur false) (k : Int) =
      .ok (toS (round s opt rs st cur k p).1 (round s opt rs st cur k p).2.1 (round s opt rs st cur k p).2.2))

theorem fold_loop_aux {fm : Fmts} {s : Str} {opt rs : Bool} {step : S → Int → Except Exc S}
    (hstep : RoundSpec fm s opt rs step) (hs : SortedKeys fm) :
    ∀ (B A : Fmts), fm = A ++ B → ∀ (st : Render.St) (cur : List Setting) (d : Bool),
      List.foldlM step (toS st cur d) (B.map (fun kp => (kp.1 : Int))) =
        .ok (toS (loopS s opt rs (st, cur, d) B).1 (loopS s opt rs (st, cur, d) B).2.1
          (loopS s opt rs (st, cur, d) B).2.2) := by
  intro B
  induction B with
  | nil => intro A _ st cur d; rfl
  | cons kp B ih =>
    intro A hfm st cur d
    obtain ⟨k, p⟩ := kp
    have hnext : fm = (A ++ [(k, p)]) ++ B := by simp [hfm]
    rw [List.map_cons, List.foldlM_cons]
    cases d with
    | true =>
      rw [hstep.1]
      show List.foldlM step _ _ = _
      rw [ih _ hnext, loopS_done, loopS_done]
    | false =>
      have hA : ∀ x ∈ A, x.1 < k := by
        intro x hx
        rw [hfm] at hs
        exact (List.pairwise_append.mp hs).2.2 x hx (k, p) (by simp)
      have hg : fm.get? k = some p := by rw [hfm]; exact C12b.L.get?_mid p B hA
      rw [hstep.2 _ _ _ _ hg]
      show List.foldlM step _ _ = _
      rw [ih _ hnext]
      rfl

/-- THE LOOP: over the ascending keys of a sorted table, rounds that meet `RoundSpec` compute `loopS` -/
theorem fold_loop {fm : Fmts} {s : Str} {opt rs : Bool} {step : S → Int → Except Exc S}
    (hstep : RoundSpec fm s opt rs step) (hs : SortedKeys fm) (st : Render.St) (cur : List Setting) (d : Bool) :
    List.foldlM step (toS st cur d) (Obj.keysAsc fm) =
      .ok (toS (loopS s opt rs (st, cur, d) fm).1 (loopS s opt rs (st, cur, d) fm).2.1
          (loopS s opt rs (st, cur, d) fm).2.2) := by
  have h := fold_loop_aux hstep hs fm [] rfl st cur d
  unfold Obj.keysAsc Fmts.keys
  rw [List.map_map]
  exact h

/-- `loopS` is the model's fold of `step` over the triples of the iterator before the first key `≥ len`
    (the `break` and `takeWhile` stop at the same entry) -/
theorem loopS_render (s : Str) (opt rs : Bool) :
    ∀ (B : Fmts) (st : Render.St) (cur : List Setting),
      (loopS s opt rs (st, cur, false) B).1 =
        ((replayFrom cur B).takeWhile (fun t => t.1 < s.length)).foldl (Render.step s opt rs) st := by
  intro B
  induction B with
  | nil => intro st cur; rfl
  | cons kp B ih =>
    intro st cur
    obtain ⟨k, p⟩ := kp
    show (loopS s opt rs (round s opt rs st cur k p) B).1 = _
    unfold replayFrom round
    by_cases h : k ≥ s.length
    · have h' : ¬ k < s.length := by omega
      simp only [h, h', if_true, loopS_done, List.takeWhile_cons, decide_false, Bool.false_eq_true, if_false,
        List.foldl_nil]
    · have h' : k < s.length := by omega
      simp only [h, h', if_false, List.takeWhile_cons, decide_true, if_true, List.foldl_cons]
      exact ih _ _

/-! ## Glue for the statements of the round -/

/-- both branches of an `if` statement end normally -/
theorem ite_ok_bind {ε α β : Type} (c : Prop) [Decidable c] (a b : α) (f : α → Except ε β) :
    ((if c then Except.ok a else Except.ok b : Except ε α)).bind f = f (if c then a else b) := by
  split <;> rfl

/-- the same, nothing following -/
theorem ite_ok_any {ε α : Type} (c : Prop) [Decidable c] (a b : α) :
    (if c then Except.ok a else Except.ok b : Except ε α) = .ok (if c then a else b) := by
  split <;> rfl

/-- `if a and b:` as the model writes it -/
theorem ite_band {α : Type} (a b : Bool) (u v : α) :
    (if (a && b) = true then u else v) = if a = true ∧ b = true then u else v := by
  cases a <;> cases b <;> rfl

/-- a `for` loop that appends something made of the element when a condition holds and does nothing
    otherwise -/
theorem foldlM_filter_map {ε α β γ : Type} (c : α → Bool) (g : α → β) (pr : γ → α) (l : List γ) (acc : List β) :
    List.foldlM (m := Except ε) (fun acc a => if c a = true then .ok (acc ++ [g a]) else .ok acc) acc (l.map pr) =
      .ok (acc ++ (l.filter (fun kv => c (pr kv))).map (fun kv => g (pr kv))) := by
  induction l generalizing acc with
  | nil => simp [pure, Except.pure]
  | cons a l ih =>
    rw [List.map_cons, List.foldlM_cons]
    cases h : c (pr a) with
    | true =>
      simp only [if_true, List.filter_cons, h, List.map_cons]
      show List.foldlM _ (acc ++ [g (pr a)]) (l.map pr) = _
      rw [ih]; simp
    | false =>
      simp only [Bool.false_eq_true, if_false, List.filter_cons, h]
      show List.foldlM _ acc (l.map pr) = _
      rw [ih]

/-- the same loop written with `continue` / with the branches exchanged -/
theorem foldlM_filter_map_not {ε α β γ : Type} (c : α → Bool) (g : α → β) (pr : γ → α) (l : List γ)
    (acc : List β) :
    List.foldlM (m := Except ε) (fun acc a => if c a = true then .ok acc else .ok (acc ++ [g a])) acc (l.map pr) =
      .ok (acc ++ (l.filter (fun kv => !c (pr kv))).map (fun kv => g (pr kv))) := by
  rw [← foldlM_filter_map (fun a => !c a) g pr]
  congr 1
  funext acc a
  cases c a <;> rfl

/-- `k not in d or d[k] != v` with the model's lookup -/
theorem dictNe_eq (d : PyDict) (k : Nat) (v : Setting) :
    Py.dictNe d k v = (match d.get? k with | none => true | some o => o.txt != v.txt) := by
  unfold Py.dictNe PyDict.get?
  cases d.find? (fun kv => kv.1 == k) <;> rfl

/-- `s[a:k]` for a `k` inside the text -/
theorem slice_mid (s : Str) (a k : Nat) (hk : k ≤ s.length) :
    Py.listSlice s (some (a : Int)) (some (k : Int)) = (s.take k).drop a := by
  unfold Py.listSlice Py.listIdx
  have h1 : ¬ ((a : Int) < 0) := by omega
  have h2 : ¬ ((k : Int) < 0) := by omega
  simp only [h1, h2, if_false, Int.toNat_natCast, Nat.min_eq_left hk]
  by_cases ha : a ≤ s.length
  · rw [Nat.min_eq_left ha]
  · have : min a s.length = s.length := by omega
    rw [this, List.drop_eq_nil_of_le (by simp; omega), List.drop_eq_nil_of_le (by simp; omega)]

/-- `s[a:]` -/
theorem slice_end (s : Str) (a : Nat) :
    Py.listSlice s (some (a : Int)) none = s.drop a := by
  unfold Py.listSlice Py.listIdx
  have h1 : ¬ ((a : Int) < 0) := by omega
  simp only [h1, if_false, Int.toNat_natCast, List.take_length]
  by_cases ha : a ≤ s.length
  · rw [Nat.min_eq_left ha]
  · have : min a s.length = s.length := by omega
    rw [this, List.drop_eq_nil_of_le (by omega), List.drop_eq_nil_of_le (by omega)]

end L

open L C06d.L

/-- the method was translated (it did not fall outside the translator's fragment) -/
theorem translated : Gen.renderCoreOk = true := by decide

/-- closes what `simp` leaves of a branch of the round: the `if`s on the optimized codes (empty /
    shorter than the plain ones) that occur on both sides -/
local macro "leaf" : tactic => `(tactic| (repeat' split) <;> simp_all)

set_option linter.unusedSimpArgs false in
/-- THE GENERATED RENDERING LOOP OF `to_str` IS THE MODEL'S `render`: with the format spec applied (the
    object rendered is the second argument; Python's `self` is not used any more) and `optimize`
    resolved, the statements of `to_str` translated from the source end normally with exactly the
    model's text — no `KeyError`, nothing outside the model's representation -/
theorem renderCore_is_code (x : AStr) (hs : SortedKeys x.fmts) (anySelf : AStr) (opt rs re : Bool) :
    Gen.renderCore anySelf x (opt && x.isFormattingParsable) rs re = .ok (Render.render x opt rs re) := by
  unfold Gen.renderCore
  simp only []
  have h0 : (([] : Str), (0 : Int), false, true, ([] : PyDict), ([] : List Setting), false) = toS {} [] false := rfl
  rw [h0, fold_loop (s := x.s) (opt := opt && x.isFormattingParsable) (rs := rs) ?spec hs]
  case spec =>
    constructor
    · intro st cur idx
      simp [toS]
    · intro st cur k p hg
      obtain ⟨out, last, exist, dict, first⟩ := st
      generalize (opt && x.isFormattingParsable) = o
      simp only [toS, C04c.L.get_some hg, bind_ok, C09c.iter_step_is_code]
      unfold round
      by_cases h : k ≥ x.s.length
      · -- the `break`
        simp [h]
      · have h' : k ≤ x.s.length := by omega
        have hne : ¬ x.s = [] := by intro h0; rw [h0] at h; simp at h
        have hk : k = 0 ∨ (0 < k ∧ ¬ k = 0) := by omega
        -- the code's side: the `if` statements, the inner loop, the slice
        simp only [foldlM_filter_map, foldlM_filter_map_not, bind_ok]
        simp only [ite_ok_bind, ite_ok_any, ite_band, dictNe_eq, slice_mid _ _ _ h', bind_ok, List.singleton_append,
          List.nil_append]
        generalize stepPoint cur p = c'
        -- the model's side
        simp only [Render.step]
        cases o
        · simp only [Bool.false_eq_true, if_false]
          -- the plain codes, whatever they are
          generalize joinSep Gen.ansiSep
            (if !p.rem.isEmpty ∧ !(texts c').isEmpty then Py.natStr Gen.paramReset :: texts c' else texts c') = codes
          rcases hk with rfl | ⟨hk, hk0⟩ <;> cases rs <;> cases first <;> simp [h, hne, bind_ok, *] <;> leaf
        · simp only [if_true]
          -- the optimized codes and the plain codes, whatever they are
          generalize joinSep Gen.ansiSep
            ((dict.filter (fun kv => !(settingsToDict c').contains kv.1)).map (fun kv => Render.clearCode kv.1) ++
             ((settingsToDict c').filter (fun kv =>
                match dict.get? kv.1 with
                | none => true
                | some v => v.txt != kv.2.txt)).map (fun kv => kv.2.txt)) = oc
          generalize joinSep Gen.ansiSep
            (if !p.rem.isEmpty ∧ !(texts c').isEmpty then Py.natStr Gen.paramReset :: texts c' else texts c') = codes
          rcases hk with rfl | ⟨hk, hk0⟩ <;> cases rs <;> cases first <;> simp [h, hne, bind_ok, *] <;> leaf
  -- the statements after the loop
  simp only [bind_ok, toS, ite_ok_bind, ite_band, slice_end, loopS_render]
  rfl

/-- under the same hypothesis the translated statements raise nothing: no `KeyError` from the fetch of
    the point of a key, nothing outside the model's representation, no Python exception -/
theorem renderCore_never_outside (x : AStr) (hs : SortedKeys x.fmts) (anySelf : AStr) (opt rs re : Bool)
    (err : Exc) :
    Gen.renderCore anySelf x (opt && x.isFormattingParsable) rs re ≠ .error err := by
  rw [renderCore_is_code x hs anySelf opt rs re]
  intro h; cases h

/-! ## Non-vacuity: concrete values -/

/-- "abcdef", object 0 (`31`) from 0 to 6, object 1 (`1`) from 2 to 4 -/
def x0 : AStr :=
  { s := "abcdef".toList,
    fmts := [(0, { add := [⟨0, "31".toList⟩] }), (2, { add := [⟨1, "1".toList⟩] }),
             (4, { rem := [⟨1, "1".toList⟩] }), (6, { rem := [⟨0, "31".toList⟩] })] }

/-- "abcdef", `38;5;9` from 1 to 3 and `4` from 1 on, the unparsable `[77` from 3 to a key beyond the end -/
def x1 : AStr :=
  { s := "abcdef".toList,
    fmts := [(1, { add := [⟨0, "38;5;9".toList⟩, ⟨2, "4".toList⟩] }),
             (3, { rem := [⟨0, "38;5;9".toList⟩], add := [⟨1, "[77".toList⟩] }),
             (9, { rem := [⟨1, "[77".toList⟩] })] }

example : SortedKeys x0.fmts := by simp [x0, SortedKeys]
example : SortedKeys x1.fmts := by simp [x1, SortedKeys]

example : Gen.renderCore x0 x0 (true && x0.isFormattingParsable) false true =
    .ok (Render.render x0 true false true) := by decide +kernel
example : Gen.renderCore x0 x0 (false && x0.isFormattingParsable) true false =
    .ok (Render.render x0 false true false) := by decide +kernel
example : Gen.renderCore x1 x1 (true && x1.isFormattingParsable) true true =
    .ok (Render.render x1 true true true) := by decide +kernel
example : Gen.renderCore x1 x1 (true && x1.isFormattingParsable) false true =
    .ok (Render.render x1 true false true) := by decide +kernel

/-- the value itself: `ESC[31m ab ESC[1m cd ESC[22m ef ESC[m` -/
example : Gen.renderCore x0 x0 (true && x0.isFormattingParsable) false true = .ok
    ([Char.ofNat 27] ++ "[31mab".toList ++ [Char.ofNat 27] ++ "[1mcd".toList ++ [Char.ofNat 27] ++
      "[22mef".toList ++ [Char.ofNat 27] ++ "[m".toList) := by decide +kernel

/-- the hypothesis `SortedKeys` is needed: on a table out of order the fetch of the point meets `Exc.key` -/
example : Gen.renderCore x0 { s := "abc".toList, fmts := [(2, {}), (0, {})] } true false true = .error .key := by
  decide +kernel

end C01b

#print axioms C01b.translated
#print axioms C01b.renderCore_is_code
#print axioms C01b.renderCore_never_outside
