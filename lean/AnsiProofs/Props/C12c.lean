import AnsiModel.Pad
import AnsiModel.Generated.Methods.Ljust
/-
  Property C12, part c — `ljust`, from the source.

  `Gen.ljust` is `AnsiString.ljust` translated statement by statement on every run (harness/pyobj.py:
  Python ints stay `Int`, `d.pop(k)` on an absent key and a negative key are explicit outcomes).  The
  theorems tie it to the hand-written `AStr.ljust` the C12 theorems are about — for every value (no
  well-formedness needed), width, fill character and both switches — and show that the two outcomes the
  model cannot represent do not occur.  (`rjust`, `center`, `_shift_settings_idx`: Props/C12b.lean.)
-/
namespace C12c

theorem translated : Gen.ljustOk = true := by decide

private theorem has_iff (f : Fmts) (n : Nat) : Obj.has f (n : Int) = (f.get? n).isSome := by
  simp [Obj.has, Fmts.contains]

private theorem pop_some {f : Fmts} {n : Nat} {p : Point} (h : f.get? n = some p) :
    Obj.pop f (n : Int) = .ok (p, f.erase n) := by
  unfold Obj.pop
  have : ¬ ((n : Int) < 0) := by omega
  simp [this, h]

private theorem set_nat (f : Fmts) (n : Nat) (p : Point) : Obj.set f (n : Int) p = .ok (f.set n p) := by
  unfold Obj.set
  have : ¬ ((n : Int) < 0) := by omega
  simp [this]

/-- THE MODEL'S `ljust` IS THE CODE'S `ljust` -/
theorem ljust_is_code (x : AStr) (w : Int) (c : Char) (inplace ext : Bool) :
    Gen.ljust x w [c] inplace ext = .ok (x.ljust w c ext) := by
  unfold Gen.ljust AStr.ljust AStr.len
  simp only [Py.strMul_single, List.length_singleton, List.length_append, List.length_replicate]
  by_cases hnum : w - (x.s.length : Int) > 0
  · obtain ⟨m, rfl⟩ : ∃ m : Nat, w = (x.s.length : Int) + (m : Int) := ⟨(w - x.s.length).toNat, by omega⟩
    have e1 : (x.s.length : Int) + (m : Int) - (x.s.length : Int) = (m : Int) := by omega
    have hm : m > 0 := by omega
    have hm' : (m : Int) > 0 := by omega
    rw [e1] at hnum ⊢
    simp only [Int.toNat_natCast, ← Int.natCast_add, has_iff, Int.reduceNeg, ne_eq, not_true_eq_false,
      decide_false, Bool.false_eq_true, if_false, hm, hm', decide_true, if_true]
    have hm2 : ¬ ((x.s.length : Int) + (m : Int) ≤ (x.s.length : Int)) := by omega
    have e2 : (x.s.length : Int) + (m : Int) = ((x.s.length + m : Nat) : Int) := by omega
    cases hg : x.fmts.get? x.s.length with
    | none => cases inplace <;> cases ext <;> simp [hm2] <;> (try (intros; first | omega | grind))
    | some p =>
      cases inplace <;> cases ext <;> simp only [pop_some hg, Except.bind, e2, set_nat, hm2] <;> simp <;>
        (try (intros; first | omega | grind))
  · have hz : (w - (x.s.length : Int)).toNat = 0 := by omega
    have h1 : ¬ (x.s.length : Int) < w := by omega
    have h2 : w ≤ (x.s.length : Int) := by omega
    cases inplace <;> simp [hnum, hz, h1, h2] <;> (try (intros; first | omega | grind))

/-- a fill string that is not one character: ValueError, whatever else is passed -/
theorem ljust_fill_error (x : AStr) (w : Int) (fill : Str) (inplace ext : Bool) (h : fill.length ≠ 1) :
    Gen.ljust x w fill inplace ext = .error (.py .valueError) := by
  unfold Gen.ljust
  have : ((fill.length : Int) ≠ 1) := by omega
  simp [this]

/-- the outcomes the model cannot hold (KeyError, a negative key) do not occur -/
theorem ljust_never_outside (x : AStr) (w : Int) (fill : Str) (inplace ext : Bool) :
    Gen.ljust x w fill inplace ext ≠ .error .key ∧ Gen.ljust x w fill inplace ext ≠ .error .outside := by
  by_cases h : fill.length = 1
  · obtain ⟨c, rfl⟩ : ∃ c, fill = [c] := by
      match fill, h with
      | [c], _ => exact ⟨c, rfl⟩
    rw [ljust_is_code]
    exact ⟨by simp, by simp⟩
  · rw [ljust_fill_error x w fill inplace ext h]
    exact ⟨by simp, by simp⟩

/-- non-vacuity: bold `ab` padded to 5 with the stop marker carried along, and without -/
def exV : AStr :=
  { s := "ab".toList, fmts := [(0, { add := [⟨0, "1".toList⟩] }), (2, { rem := [⟨0, "1".toList⟩] })] }

example : Gen.ljust exV 5 "*".toList false true =
    .ok { s := "ab***".toList, fmts := [(0, { add := [⟨0, "1".toList⟩] }), (5, { rem := [⟨0, "1".toList⟩] })] } := by
  decide +kernel
example : Gen.ljust exV 5 "*".toList true false =
    .ok { s := "ab***".toList, fmts := [(0, { add := [⟨0, "1".toList⟩] }), (2, { rem := [⟨0, "1".toList⟩] })] } := by
  decide +kernel
example : Gen.ljust exV 5 "**".toList true false = .error (.py .valueError) := by decide +kernel
example : Gen.ljust exV 1 "*".toList true true = .ok exV := by decide +kernel

end C12c

#print axioms C12c.ljust_is_code
#print axioms C12c.ljust_fill_error
#print axioms C12c.ljust_never_outside
