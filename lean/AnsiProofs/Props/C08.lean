import AnsiSpec
/-
  C08 — value semantics.  The model is pure, so these theorems are *structural*: they state what
  the model promises (an operation changes only the variables in `writes`; a failed operation
  changes nothing; in-place and non-in-place forms compute the same value; a copy equals its
  source).  What decides C08 for the *code* is the correspondence check, in which every live Python
  object is observed before and after every operation and compared with this prediction.
-/

namespace Store

theorem get?_put_ne (σ : Store) (v w : Var) (x : AStr) (h : w ≠ v) : (σ.put v x).get? w = σ.get? w := by
  unfold Store.get? Store.put
  simp only [List.find?_cons]
  have h1 : ((v, x).1 == w) = false := by simp; exact fun e => h e.symm
  rw [h1]
  congr 1
  induction σ.vals with
  | nil => rfl
  | cons kv rest ih =>
    simp only [List.filter_cons]
    by_cases hk : kv.1 = v
    · have : (kv.1 != v) = false := by simp [hk]
      have h2 : (kv.1 == w) = false := by simp [hk]; exact fun e => h e.symm
      simp [this, List.find?_cons, h2, ih]
    · have : (kv.1 != v) = true := by simp [hk]
      simp only [this, if_true, List.find?_cons]
      cases hkw : (kv.1 == w) <;> simp [ih]

theorem get?_put_eq (σ : Store) (v : Var) (x : AStr) : (σ.put v x).get? v = some x := by
  simp [Store.get?, Store.put]

theorem get?_bump (σ : Store) (x : AStr) (v : Var) : (σ.bump x).get? v = σ.get? v := rfl

theorem commit_frame (σ : Store) (v w : Var) (x : AStr) (h : w ≠ v) : ((σ.commit v x).1).get? w = σ.get? w := by
  simp [Store.commit, get?_bump, get?_put_ne _ _ _ _ h]

theorem fromExcept_frame (σ : Store) (v w : Var) (r : Except PyErr AStr) (h : w ≠ v) :
    ((σ.fromExcept v r).1).get? w = σ.get? w := by
  cases r with
  | ok x => exact commit_frame σ v w x h
  | error e => rfl

theorem withVal_frame (σ : Store) (v w : Var) (k : AStr → Store × Outcome)
    (hk : ∀ x, ((k x).1).get? w = σ.get? w) : ((σ.withVal v k).1).get? w = σ.get? w := by
  unfold Store.withVal
  cases σ.get? v with
  | none => rfl
  | some x => exact hk x

theorem pad1_frame (σ : Store) (d w : Var) (fill : Str) (f : Char → AStr) (h : w ≠ d) :
    ((σ.pad1 d fill f).1).get? w = σ.get? w := by
  unfold Store.pad1
  split
  · exact commit_frame σ d w _ h
  · rfl

theorem piece_frame (σ : Store) (d w : Var) (o : Option AStr) (h : w ≠ d) :
    ((σ.piece d o).1).get? w = σ.get? w := by
  cases o with
  | some p => exact commit_frame σ d w p h
  | none => rfl

/-- **Frame theorem**: an operation leaves every variable it does not write exactly as it was —
    arguments (the right operand of `+`/`+=`, the replacement of `replace`, the source of a copy,
    slice, pad …) are never modified and results share nothing with their sources. -/
theorem step_frame (σ : Store) (op : Op) (w : Var) (h : w ∉ op.writes) :
    ((σ.step op).1).get? w = σ.get? w := by
  cases op <;> simp only [Op.writes, List.mem_singleton, List.not_mem_nil, not_false_eq_true] at h <;>
    simp only [Store.step]
  case new d s ss => exact fromExcept_frame σ d w _ h
  case copy d src ss => exact withVal_frame σ src w _ (fun x => fromExcept_frame σ d w _ h)
  case apply v a st en top => exact withVal_frame σ v w _ (fun x => fromExcept_frame σ v w _ h)
  case remove v a st en => exact withVal_frame σ v w _ (fun x => fromExcept_frame σ v w _ h)
  case clear v => exact withVal_frame σ v w _ (fun x => commit_frame σ v w _ h)
  case slice d src a b => exact withVal_frame σ src w _ (fun x => commit_frame σ d w _ h)
  case index d src i => exact withVal_frame σ src w _ (fun x => fromExcept_frame σ d w _ h)
  case iadd v u => exact withVal_frame σ v w _ (fun x => withVal_frame σ u w _ (fun y => commit_frame σ v w _ h))
  case add d v u => exact withVal_frame σ v w _ (fun x => withVal_frame σ u w _ (fun y => commit_frame σ d w _ h))
  case addStr d v t => exact withVal_frame σ v w _ (fun x => commit_frame σ d w _ h)
  case ljust d src wd fill e => exact withVal_frame σ src w _ (fun x => pad1_frame σ d w fill _ h)
  case rjust d src wd fill e => exact withVal_frame σ src w _ (fun x => pad1_frame σ d w fill _ h)
  case center d src wd fill e => exact withVal_frame σ src w _ (fun x => pad1_frame σ d w fill _ h)
  case assign v t => exact withVal_frame σ v w _ (fun x => commit_frame σ v w _ h)
  case simplify v => exact withVal_frame σ v w _ (fun x => commit_frame σ v w _ h)
  case strip d src cs l r => exact withVal_frame σ src w _ (fun x => commit_frame σ d w _ h)
  case removeprefix d src p => exact withVal_frame σ src w _ (fun x => commit_frame σ d w _ h)
  case removesuffix d src p => exact withVal_frame σ src w _ (fun x => commit_frame σ d w _ h)
  case replace d src old new count =>
    refine withVal_frame σ src w _ (fun x => ?_)
    cases new with
    | inr t => exact commit_frame σ d w _ h
    | inl u => exact withVal_frame σ u w _ (fun y => commit_frame σ d w _ h)
  case render src spec o rs re =>
    refine withVal_frame σ src w _ (fun x => ?_)
    split <;> rfl
  case find src a st en rev =>
    refine withVal_frame σ src w _ (fun x => ?_)
    split <;> rfl
  case zfill d src wd => exact withVal_frame σ src w _ (fun x => commit_frame σ d w _ h)
  case clip d src a b => exact withVal_frame σ src w _ (fun x => commit_frame σ d w _ h)
  case join d vs =>
    split
    · exact commit_frame σ d w _ h
    · rfl
  case fmatch v a spans count => exact withVal_frame σ v w _ (fun x => fromExcept_frame σ v w _ h)
  case unfmatch v a spans count => exact withVal_frame σ v w _ (fun x => fromExcept_frame σ v w _ h)
  case splitPiece d src sep m r j =>
    refine withVal_frame σ src w _ (fun x => ?_)
    split
    · exact piece_frame σ d w _ h
    · rfl
  case linePiece d src ke j => exact withVal_frame σ src w _ (fun x => piece_frame σ d w _ h)
  case partPiece d src sep r j => exact withVal_frame σ src w _ (fun x => piece_frame σ d w _ h)
  case expandtabs d src k => exact withVal_frame σ src w _ (fun x => commit_frame σ d w _ h)

/-- a failed operation (documented error) changes nothing at all -/
theorem error_atomic (σ : Store) (op : Op) (e : PyErr) (h : (σ.step op).2 = .err e) :
    (σ.step op).1 = σ := by
  have wv : ∀ (v : Var) (k : AStr → Store × Outcome), (∀ x, (k x).2 = .err e → (k x).1 = σ) →
      (σ.withVal v k).2 = .err e → (σ.withVal v k).1 = σ := by
    intro v k hk
    unfold Store.withVal
    cases σ.get? v with
    | none => intro _; rfl
    | some x => exact hk x
  have fe : ∀ (v : Var) (r : Except PyErr AStr), (σ.fromExcept v r).2 = .err e → (σ.fromExcept v r).1 = σ := by
    intro v r
    cases r with
    | ok x => intro hh; simp [Store.fromExcept, Store.commit] at hh
    | error e' => intro _; rfl
  have cm : ∀ (v : Var) (x : AStr), (σ.commit v x).2 = .err e → (σ.commit v x).1 = σ := by
    intro v x hh; simp [Store.commit] at hh
  have pd : ∀ (d : Var) (fill : Str) (f : Char → AStr), (σ.pad1 d fill f).2 = .err e → (σ.pad1 d fill f).1 = σ := by
    intro d fill f
    unfold Store.pad1
    split
    · exact cm d _
    · intro _; rfl
  have pc : ∀ (d : Var) (o : Option AStr), (σ.piece d o).2 = .err e → (σ.piece d o).1 = σ := by
    intro d o
    cases o with
    | some p => exact cm d p
    | none => intro _; rfl
  cases op <;> simp only [Store.step] at h ⊢
  case new d s ss => exact fe d _ h
  case copy d src ss => exact wv src _ (fun x => fe d _) h
  case apply v a st en top => exact wv v _ (fun x => fe v _) h
  case remove v a st en => exact wv v _ (fun x => fe v _) h
  case clear v => exact wv v _ (fun x => cm v _) h
  case slice d src a b => exact wv src _ (fun x => cm d _) h
  case index d src i => exact wv src _ (fun x => fe d _) h
  case iadd v u => exact wv v _ (fun x => wv u _ (fun y => cm v _)) h
  case add d v u => exact wv v _ (fun x => wv u _ (fun y => cm d _)) h
  case addStr d v t => exact wv v _ (fun x => cm d _) h
  case ljust d src wd fill ex => exact wv src _ (fun x => pd d fill _) h
  case rjust d src wd fill ex => exact wv src _ (fun x => pd d fill _) h
  case center d src wd fill ex => exact wv src _ (fun x => pd d fill _) h
  case assign v t => exact wv v _ (fun x => cm v _) h
  case simplify v => exact wv v _ (fun x => cm v _) h
  case strip d src cs l r => exact wv src _ (fun x => cm d _) h
  case removeprefix d src p => exact wv src _ (fun x => cm d _) h
  case removesuffix d src p => exact wv src _ (fun x => cm d _) h
  case replace d src old new count =>
    refine wv src _ (fun x => ?_) h
    cases new with
    | inr t => exact cm d _
    | inl u => exact wv u _ (fun y => cm d _)
  case render src spec o rs re =>
    refine wv src _ (fun x => ?_) h
    split <;> intro _ <;> rfl
  case find src a st en rev =>
    refine wv src _ (fun x => ?_) h
    split <;> intro _ <;> rfl
  case zfill d src wd => exact wv src _ (fun x => cm d _) h
  case clip d src a b => exact wv src _ (fun x => cm d _) h
  case join d vs =>
    revert h
    split
    · exact cm d _
    · intro _; rfl
  case fmatch v a spans count => exact wv v _ (fun x => fe v _) h
  case unfmatch v a spans count => exact wv v _ (fun x => fe v _) h
  case splitPiece d src sep m r j =>
    refine wv src _ (fun x => ?_) h
    split
    · exact pc d _
    · intro _; rfl
  case linePiece d src ke j => exact wv src _ (fun x => pc d _) h
  case partPiece d src sep r j => exact wv src _ (fun x => pc d _) h
  case expandtabs d src k => exact wv src _ (fun x => cm d _) h

/-- `a += b` and `a + b` compute the same value (the in-place form writes the receiver) -/
theorem inplace_eq (σ : Store) (v u d : Var) (x y : AStr) (hx : σ.get? v = some x) (hy : σ.get? u = some y) :
    ((σ.step (.iadd v u)).1).get? v = ((σ.step (.add d v u)).1).get? d := by
  simp [Store.step, Store.withVal, hx, hy, Store.commit, get?_bump, get?_put_eq]

/-- `copy()` / `AnsiString(s)`: the copy equals its source and the source is unchanged -/
theorem copy_eq (σ : Store) (d src : Var) (x : AStr) (hx : σ.get? src = some x) :
    ((σ.step (.copy d src [])).1).get? d = some x := by
  simp [Store.step, Store.withVal, hx, AStr.ofAStr, Store.fromExcept, Store.commit, get?_bump, get?_put_eq]

/-- `x.clip a b` and `x[a:b]` compute the same value -/
theorem clip_eq_slice (σ : Store) (d src : Var) (a b : Option Int) :
    σ.step (.clip d src a b) = σ.step (.slice d src a b) := rfl

/-- `x.zfill w` is `x.rjust w "0"` with the leading style extended -/
theorem zfill_eq_rjust (σ : Store) (d src : Var) (w : Int) :
    σ.step (.zfill d src w) = σ.step (.rjust d src w ['0'] true) := rfl

/-- `AnsiString.join(x, y)` computes the value of `x + y` -/
theorem join_pair_eq_add (σ : Store) (v u d : Var) (x y : AStr) (hx : σ.get? v = some x) (hy : σ.get? u = some y) :
    ((σ.step (.join d [v, u])).1).get? d = ((σ.step (.add d v u)).1).get? d := by
  simp [Store.step, Store.withVal, Store.getAll, hx, hy, AStr.join, Store.commit, get?_bump, get?_put_eq]

/-- the loop of `fmatch` is the loop of `AStr.formatMatching`; only the numbering of the new objects
    differs (from the store's counter on instead of from the value's own next identity) -/
theorem formatMatchingFrom_zero (x : AStr) (a : SArg) (spans : List (Int × Int)) (count : Int) :
    x.formatMatchingFrom 0 a spans count = x.formatMatching a spans count := by
  unfold AStr.formatMatchingFrom AStr.formatMatching
  simp only [Nat.zero_max]

end Store

/-- non-vacuity: a concrete store in which `v1` is sliced, the slice concatenated with itself and
    cleared; `v1` is observed unchanged -/
example :
    let σ0 : Store := { vals := [(1, { s := "abcd".toList, fmts := [(0, { add := [⟨1, "31".toList⟩] }), (4, { rem := [⟨1, "31".toList⟩] })] })], nid := 2 }
    let σ := Store.run σ0 [.slice 2 1 (some 1) (some 3), .iadd 2 2, .clear 2]
    σ.get? 1 = σ0.get? 1 ∧ (σ.get? 2).map (·.s) = some "bcbc".toList := by
  decide

/-- the same for the operations added later: `v2 = join(v1, v1)`, `v2.format_matching(…)` on the
    span (1,3), `v3 = v2.split("c")[1]`, `v4 = v3.zfill(5)`; `v1` is observed unchanged, and a failing
    `format_matching` (a float as format) leaves the whole store as it was -/
example :
    let σ0 : Store := { vals := [(1, { s := "abcd".toList, fmts := [(0, { add := [⟨1, "31".toList⟩] }), (4, { rem := [⟨1, "31".toList⟩] })] })], nid := 2 }
    let σ := Store.run σ0 [.join 2 [1, 1], .fmatch 2 (.int 4) [(1, 3)] (-1),
      .splitPiece 3 2 (some "c".toList) (-1) false 1, .zfill 4 3 5]
    σ.get? 1 = σ0.get? 1 ∧ (σ.get? 2).map (·.s) = some "abcdabcd".toList ∧
      (σ.get? 3).map (·.s) = some "dab".toList ∧ (σ.get? 4).map (·.s) = some "00dab".toList ∧
      (σ.step (.fmatch 2 (.bad true) [(1, 3)] (-1))).1.vals = σ.vals ∧
      (1 : Var) ∉ (Op.fmatch 2 (.int 4) [(1, 3)] (-1)).writes ∧
      (∀ x y, σ0.get? 1 = some x → σ0.get? 1 = some y →
        ((σ0.step (.join 5 [1, 1])).1).get? 5 = ((σ0.step (.add 5 1 1)).1).get? 5) :=
  ⟨by decide +kernel, by decide +kernel, by decide +kernel, by decide +kernel, by decide +kernel,
   by decide, fun x y hx hy => Store.join_pair_eq_add _ 1 1 5 x y hx hy⟩
