import AnsiProofs.Lemmas.Display
/-
  Property C05 (consequence) — `s[:k] + s[k:]`.

  "Consequently s[:k] + s[k:] reports the same per-character settings and renders
  display-identically to s for every k."

  Notation: `x : AStr` the value `s`; `x.getRange 0 k` the slice `s[:k]`, `x.getRange k x.len` the
  slice `s[k:]` (the bounds after Python's slice normalisation, `k ≤ x.len`), `a.iadd b` the
  concatenation; `texts (act y i)` the setting texts character `i` of `y` reports, in precedence
  order; `den y` the characters of `y`, each with the style a conforming terminal shows for the
  settings the character reports; `Term.run Term.default out` what the terminal of
  `AnsiSpec/Terminal.lean`, started in its default state, displays for the output `out`.

  The corner cases `k = 0` and `k = x.len` (one of the slices is the empty value) are covered.
  All statements hold for every `x` and every `k ≤ x.len`.
-/
open Term DisplayL ConcatL

namespace C05b

/-! ### the two slices of one value can be concatenated -/

/-- a slice mentions only setting objects of its source (any bounds) -/
theorem getRange_settings_sub (x : AStr) (st en : Nat) :
    ∀ s ∈ (x.getRange st en).fmts.settings, s ∈ x.fmts.settings :=
  DisplayL.getRange_settings_sub x st en

/-- objects shared between two slices of one value carry the same text: the hypothesis of
    `C05.iadd_wf` holds for any two slices -/
theorem slices_coherent (x : AStr) (h : WF x) (a b c d : Nat) :
    CoherentPair (x.getRange a b) (x.getRange c d) :=
  slices_coherent_aux h a b c d

/-- a concatenation mentions only setting objects of its operands -/
theorem iadd_settings_sub (a b : AStr) (ha : WF a) (hb : WF b) :
    ∀ s ∈ (a.iadd b).fmts.settings, s ∈ a.fmts.settings ∨ s ∈ b.fmts.settings :=
  DisplayL.iadd_settings_sub ha hb

/-! ### `s[:k] + s[k:]` -/

/-- the text -/
theorem split_concat_text (x : AStr) (k : Nat) :
    ((x.getRange 0 k).iadd (x.getRange k x.len)).s = x.s := by
  rw [C05.iadd_text, C04.getRange_text, C04.getRange_text]
  unfold pySlice AStr.len
  simp

/-- the history invariant -/
theorem split_concat_wf (x : AStr) (h : WF x) {k : Nat} (hk : k ≤ x.len) :
    WF ((x.getRange 0 k).iadd (x.getRange k x.len)) :=
  C05.iadd_wf _ _ (C04.getRange_wf x h 0 hk) (C04.getRange_wf x h k (Nat.le_refl _))
    (slices_coherent x h _ _ _ _)

/-- every character reports the same setting texts, in the same (precedence) order, as in `s` -/
theorem split_concat_settings (x : AStr) (h : WF x) {k : Nat} (hk : k ≤ x.len) :
    ∀ i, i < x.len →
      texts (act ((x.getRange 0 k).iadd (x.getRange k x.len)) i) = texts (act x i) := by
  intro i hi
  have ha : WF (x.getRange 0 k) := C04.getRange_wf x h 0 hk
  have hb : WF (x.getRange k x.len) := C04.getRange_wf x h k (Nat.le_refl _)
  have hla : (x.getRange 0 k).len = k := by rw [getRange_len x hk]; omega
  by_cases hik : i < k
  · rw [C05.iadd_left _ _ ha hb (by omega), C04.getRange_settings x h (by omega) hk (by omega)]
    simp
  · have e : i = (x.getRange 0 k).len + (i - k) := by omega
    conv => lhs; rw [e]
    rw [C05.iadd_right_all _ _ ha hb, C04.getRange_settings x h (by omega) (Nat.le_refl _) (by omega)]
    congr 2; omega

/-- characters of the left part even keep their setting objects -/
theorem split_concat_left (x : AStr) (h : WF x) {k : Nat} (hk : k ≤ x.len) :
    ∀ i, i < k → act ((x.getRange 0 k).iadd (x.getRange k x.len)) i = act x i := by
  intro i hi
  have ha : WF (x.getRange 0 k) := C04.getRange_wf x h 0 hk
  have hb : WF (x.getRange k x.len) := C04.getRange_wf x h k (Nat.le_refl _)
  have hla : (x.getRange 0 k).len = k := by rw [getRange_len x hk]; omega
  rw [C05.iadd_left _ _ ha hb (by omega), C04.getRange_settings x h (by omega) hk (by omega)]
  simp

/-- all setting texts of the concatenation are group texts when those of `s` are -/
theorem split_concat_group (x : AStr) (h : WF x) (hg : GroupSettings x) {k : Nat} (hk : k ≤ x.len) :
    GroupSettings ((x.getRange 0 k).iadd (x.getRange k x.len)) := by
  intro s hs
  rcases iadd_settings_sub _ _ (C04.getRange_wf x h 0 hk) (C04.getRange_wf x h k (Nat.le_refl _)) s hs
    with h1 | h1
  · exact hg s (getRange_settings_sub x _ _ s h1)
  · exact hg s (getRange_settings_sub x _ _ s h1)

/-- **same denotation**: the same characters, each under the same displayed style.
    (`GroupSettings x` and `NoEsc x.s` are not needed for this step.) -/
theorem split_concat_display (x : AStr) (h : WF x) {k : Nat} (hk : k ≤ x.len) :
    den ((x.getRange 0 k).iadd (x.getRange k x.len)) = den x := by
  unfold den
  rw [split_concat_text]
  apply zipIdx_map_congr
  intro c i hi
  simp only
  rw [eff_congr_texts (split_concat_settings x h hk i hi)]

/-- **renders display-identically**: a conforming terminal shows the same for `str(s[:k] + s[k:])`
    and `str(s)` -/
theorem split_concat_render (x : AStr) (h : WF x) (hg : GroupSettings x) (hne : NoEsc x.s)
    {k : Nat} (hk : k ≤ x.len) :
    (Term.run Term.default ((x.getRange 0 k).iadd (x.getRange k x.len)).str).1 =
      (Term.run Term.default x.str).1 := by
  rw [C01.str_display _ (split_concat_wf x h hk) (split_concat_group x h hg hk)
      (by rw [split_concat_text]; exact hne),
    C01.str_display x h hg hne, split_concat_display x h hk]

/-- the same for `to_str` under every combination of flags (the two sides may even use different
    flags) and every prior state allowed by C01 -/
theorem split_concat_render_flags (x : AStr) (h : WF x) (hg : GroupSettings x) (hne : NoEsc x.s)
    {k : Nat} (hk : k ≤ x.len) (o rs re o' rs' re' : Bool) (t0 t0' : Term.TState)
    (h0 : rs = true ∨ t0 = Term.default) (h0' : rs' = true ∨ t0' = Term.default) :
    (Term.run t0 (Render.render ((x.getRange 0 k).iadd (x.getRange k x.len)) o rs re)).1 =
      (Term.run t0' (Render.render x o' rs' re')).1 := by
  rw [C01.render_display _ o rs re t0 (split_concat_wf x h hk) (split_concat_group x h hg hk)
      (by rw [split_concat_text]; exact hne) h0,
    C01.render_display x o' rs' re' t0' h hg hne h0']
  exact split_concat_display x h hk

/-! ### non-vacuity

  `abcd`, red (`31`, object 0) on `[0,4)`, blue (`34`, object 1) on `[1,4)`; `k = 2` cuts through
  both runs. -/

def red : Setting := ⟨0, "31".toList⟩
def blue : Setting := ⟨1, "34".toList⟩

def ex : AStr :=
  { s := "abcd".toList
    fmts := [(0, { add := [red] }), (1, { add := [blue] }), (4, { rem := [red, blue] })] }

theorem ex_wf : WF ex where
  sorted := by unfold SortedKeys; decide
  bound := by decide
  noAddEnd := by decide
  ok := by decide
  nodup := nodup_all_of_le (m := 4) (by decide) (by decide)
  closed := by decide
  coherent := by decide

theorem ex_group : GroupSettings ex := by unfold GroupSettings; decide
theorem ex_noEsc : NoEsc ex.s := by unfold NoEsc; decide

/-- the hypotheses hold on the example -/
example : WF ex ∧ GroupSettings ex ∧ NoEsc ex.s ∧ 2 ≤ ex.len := ⟨ex_wf, ex_group, ex_noEsc, by decide⟩

/-- the two slices and their concatenation for `k = 2`: here the table is even the same -/
example : ex.getRange 0 2 =
    { s := "ab".toList, fmts := [(0, { add := [red] }), (1, { add := [blue] }), (2, { rem := [red, blue] })] } ∧
    ex.getRange 2 4 =
    { s := "cd".toList, fmts := [(0, { add := [red, blue] }), (2, { rem := [red, blue] })] } ∧
    (ex.getRange 0 2).iadd (ex.getRange 2 4) = ex := by decide

example : texts (act ((ex.getRange 0 2).iadd (ex.getRange 2 ex.len)) 2) = ["31".toList, "34".toList] :=
  (split_concat_settings ex ex_wf (k := 2) (by decide) 2 (by decide)).trans (by decide)

example : (Term.run Term.default ((ex.getRange 0 2).iadd (ex.getRange 2 ex.len)).str).1 =
    (Term.run Term.default ex.str).1 :=
  split_concat_render ex ex_wf ex_group ex_noEsc (by decide)

/-- what is displayed -/
example : (Term.run Term.default ((ex.getRange 0 2).iadd (ex.getRange 2 ex.len)).str).1.map
      (fun ct => (ct.1, ct.2.toList)) =
    [('a', [(.fg, [31])]), ('b', [(.fg, [34])]), ('c', [(.fg, [34])]), ('d', [(.fg, [34])])] := by
  decide +kernel

/-- the corner cases: `k = 0` and `k = len` -/
example : ex.getRange 0 0 = { s := [], fmts := [] } ∧ ex.getRange 4 4 = { s := [], fmts := [] } ∧
    (ex.getRange 0 0).iadd (ex.getRange 0 ex.len) = ex ∧
    (ex.getRange 0 4).iadd (ex.getRange 4 ex.len) = ex := by decide
example : den ((ex.getRange 0 0).iadd (ex.getRange 0 ex.len)) = den ex :=
  split_concat_display ex ex_wf (Nat.zero_le _)
example : den ((ex.getRange 0 4).iadd (ex.getRange 4 ex.len)) = den ex :=
  split_concat_display ex ex_wf (by decide)

/-- any two slices of the example are coherent, overlapping or not, bounds in range or not -/
example : CoherentPair (ex.getRange 1 3) (ex.getRange 0 9) := slices_coherent ex ex_wf 1 3 0 9

end C05b

#print axioms C05b.getRange_settings_sub
#print axioms C05b.slices_coherent
#print axioms C05b.iadd_settings_sub
#print axioms C05b.split_concat_text
#print axioms C05b.split_concat_wf
#print axioms C05b.split_concat_settings
#print axioms C05b.split_concat_left
#print axioms C05b.split_concat_group
#print axioms C05b.split_concat_display
#print axioms C05b.split_concat_render
#print axioms C05b.split_concat_render_flags
