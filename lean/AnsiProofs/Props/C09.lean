import AnsiProofs.Lemmas.StoreInv
/-
  Property C09 (capstone) — "Every public operation … terminates and either succeeds or raises only
  the documented error type …, and after a raised error the receiver's text, settings and rendering
  are unchanged.  No sequence of successful public operations produces a value on which the
  library's own consistency self-check (AnsiString.WITH_ASSERTIONS) fails or on which a later
  query, rendering, slice or concatenation raises."

  The statements are about *histories*: `Store.run {} ops` is the store after the script `ops`
  (any finite list of the 30 operations of `AnsiModel/Store.lean`, with any arguments, failing
  operations included — a failed operation leaves the store as it was).  The operations: `new`,
  `copy`, `apply`, `remove`, `clear`, `slice`, `index`, `iadd`, `add`, `addStr`, `ljust`, `rjust`,
  `center`, `assign`, `simplify`, `strip`, `removeprefix`, `removesuffix`, `replace`, `render`,
  `find`, and (added later) `zfill`, `clip`, `join`, `fmatch` (`format_matching`), `unfmatch`
  (`unformat_matching`), `splitPiece` (one piece of `split`/`rsplit`), `linePiece` (one element of
  `splitlines`), `partPiece` (one component of `partition`/`rpartition`), `expandtabs`.

  * `StoreInv σ` (defined in `Lemmas/StoreInv.lean`, namespace `StoreL`):
      - every value of the store satisfies the history invariant `WF`
        (`WF.ok : replayOk x.fmts = true` is the library's self-check);
      - every setting identity in use is below the store's counter (`FreshFrom x σ.nid`);
      - an identity carries one text across the whole store (`CoherentPair x y` for all pairs).
  * `inv_init`, `inv_step` (for EVERY constructor of `Op`; the loops of `replace`/`expandtabs`, of
    `join` and of `format_matching`/`unformat_matching` included),
    `wf_reachable`, `reachable_wf`, `reachable_ok`.
  * `outcome_documented` — only `TypeError`/`ValueError`, `IndexError` only from an integer index;
    sharper per-operation facts `never_fails`, `pad_outcome`, `index_outcome`, `render_plain`,
    `split_outcome`, `linePiece_range`, `partPiece_range`, `splitPiece_range`.
  * `fmatch_spec` — what `format_matching` does to its receiver inside a history (C16 for the store).
  * `error_atomic` — restated from C08.
  * termination — see the comment in section 6.

  The per-operation ingredients are the finished theorems `C02.setAnsi_wf/setAnsi_fresh/ofStr_wf`,
  `C04.getSlice_wf/getRange_wf/getIndex_spec/getIndex_error`, `C05.iadd_wf`, `apply_wf`,
  `applyRaw_spec`, `freshSettings_fresh` (C06), `remove_wf`, `removeRaw_spec`, `Remove.new_settings`
  (C07), `C12.ljust_wf/rjust_wf/center_wf/assignStr_wf_longer`, `C16.nextId_fresh`, and
  `Store.get?_put_eq/commit_frame/error_atomic` (C08).
-/

namespace C09
open StoreL

/-! ## 1. the empty store -/

theorem inv_init : StoreInv {} := StoreL.inv_init

/-! ## 2. every operation keeps the invariant (no exception: all 30 constructors of `Op`) -/

theorem inv_step {σ : Store} (h : StoreInv σ) (op : Op) : StoreInv (σ.step op).1 :=
  StoreL.inv_step h op

/-! ## 3. hence every reachable store satisfies it -/

theorem wf_reachable (ops : List Op) : StoreInv (Store.run {} ops) := inv_run StoreL.inv_init ops

/-- every value reachable through any finite sequence of operations satisfies the history
    invariant -/
theorem reachable_wf (ops : List Op) (v : Var) (x : AStr) (h : (Store.run {} ops).get? v = some x) :
    WF x :=
  (wf_reachable ops).wf v x h

/-- … in particular it passes the library's own self-check (`WITH_ASSERTIONS`): every stop marker
    meets the object it stops -/
theorem reachable_ok (ops : List Op) (v : Var) (x : AStr) (h : (Store.run {} ops).get? v = some x) :
    replayOk x.fmts = true :=
  (reachable_wf ops v x h).ok

/-- … has no marker beyond its text, starts nothing at the very end, and is closed at the end -/
theorem reachable_shape (ops : List Op) (v : Var) (x : AStr) (h : (Store.run {} ops).get? v = some x) :
    (∀ kp ∈ x.fmts, kp.1 ≤ x.len) ∧ (∀ kp ∈ x.fmts, kp.1 = x.len → kp.2.add = []) ∧
      active x.fmts x.len = [] ∧ ∀ i, ((active x.fmts i).map (·.id)).Nodup :=
  have w := reachable_wf ops v x h
  ⟨w.bound, w.noAddEnd, w.closed, w.nodup⟩

/-- … all its identities are below the store's counter, so the next object created is new -/
theorem reachable_fresh (ops : List Op) (v : Var) (x : AStr) (h : (Store.run {} ops).get? v = some x) :
    FreshFrom x (Store.run {} ops).nid :=
  (wf_reachable ops).fresh v x h

/-- … and any two reachable values agree on the text of every identity they share (the hypothesis
    `CoherentPair` of `C05.iadd_wf`) -/
theorem reachable_coherent (ops : List Op) (v w : Var) (x y : AStr)
    (hx : (Store.run {} ops).get? v = some x) (hy : (Store.run {} ops).get? w = some y) :
    ConcatL.CoherentPair x y :=
  (wf_reachable ops).coherent v w x y hx hy

/-- the same from any store that satisfies the invariant -/
theorem run_inv {σ : Store} (h : StoreInv σ) (ops : List Op) : StoreInv (σ.run ops) := inv_run h ops

/-! ## 4. only the documented error classes -/

/-- `TypeError` or `ValueError`; `IndexError` only from an integer index -/
theorem outcome_documented (σ : Store) (op : Op) :
    (σ.step op).2 = .ok ∨ (∃ s, (σ.step op).2 = .str s) ∨ (∃ a b, (σ.step op).2 = .range a b) ∨
      (σ.step op).2 = .err .typeError ∨ (σ.step op).2 = .err .valueError ∨
      ((σ.step op).2 = .err .indexError ∧ ∃ d s i, op = .index d s i) ∨ (σ.step op).2 = .unbound := by
  by_cases hop : ∃ d s i, op = .index d s i
  · obtain ⟨d, s, i, e⟩ := hop
    subst e
    rcases step_index σ d s i with h | h | h
    · exact Or.inl h
    · exact Or.inr (Or.inr (Or.inr (Or.inr (Or.inr (Or.inl ⟨h, d, s, i, rfl⟩)))))
    · exact Or.inr (Or.inr (Or.inr (Or.inr (Or.inr (Or.inr h)))))
  · rcases step_doc σ op (fun d s i e => hop ⟨d, s, i, e⟩) with h | h | h | h | h | h
    · exact Or.inl h
    · exact Or.inr (Or.inl h)
    · exact Or.inr (Or.inr (Or.inl h))
    · exact Or.inr (Or.inr (Or.inr (Or.inl h)))
    · exact Or.inr (Or.inr (Or.inr (Or.inr (Or.inl h))))
    · exact Or.inr (Or.inr (Or.inr (Or.inr (Or.inr (Or.inr h)))))

/-- `clear`, slices, `+=`, `+`, `+ str`, `assign_str`, `simplify`, `strip`/`lstrip`/`rstrip`,
    `removeprefix`, `removesuffix`, `replace`, `zfill`, `clip`, `join`, `splitlines`,
    `partition`/`rpartition` and `expandtabs` never fail: on values of ANY store (reachable or
    not) the outcome is success — `unbound` only says the script named a variable (or, for
    `linePiece`/`partPiece`, a position in the result) that does not exist.  With `wf_reachable`
    this is "no later slice or concatenation raises". -/
theorem never_fails (σ : Store) (op : Op) (h : neverFails op = true) :
    (σ.step op).2 = .ok ∨ (σ.step op).2 = .unbound :=
  step_total σ op h

example : neverFails (.slice 2 1 (some 1) none) = true ∧ neverFails (.iadd 2 2) = true ∧
    neverFails (.replace 3 1 "b".toList (.inr "x".toList) (-1)) = true ∧
    neverFails (.index 2 1 0) = false ∧ neverFails (.join 4 [1, 2, 1]) = true ∧
    neverFails (.zfill 6 5 5) = true ∧ neverFails (.clip 9 1 (some 1) none) = true ∧
    neverFails (.linePiece 9 1 false 0) = true ∧ neverFails (.partPiece 7 4 "ca".toList false 2) = true ∧
    neverFails (.expandtabs 8 1 4) = true ∧
    neverFails (.splitPiece 5 4 (some []) (-1) false 0) = false ∧
    neverFails (.fmatch 4 (.bad true) [(0, 1)] (-1)) = false := by decide

/-- the integer index: success exactly for `-len ≤ i < len`, otherwise `IndexError` -/
theorem index_outcome (σ : Store) (d src : Var) (i : Int) (x : AStr) (hx : σ.get? src = some x) :
    ((σ.step (.index d src i)).2 = .ok ↔ (-(x.len : Int) ≤ i ∧ i < x.len)) ∧
    ((σ.step (.index d src i)).2 = .err .indexError ↔ (i < -(x.len : Int) ∨ i ≥ x.len)) :=
  step_index_ok σ d src i x hx

/-- `ljust`/`rjust`/`center`: a one-character fill never fails, any other fill is a `ValueError` -/
theorem pad_outcome (σ : Store) (d : Var) (fill : Str) (f : Char → AStr) :
    (fill.length = 1 → (σ.pad1 d fill f).2 = .ok) ∧
    (fill.length ≠ 1 → (σ.pad1 d fill f).2 = .err .valueError) :=
  pad1_outcome σ d fill f

/-- `split`/`rsplit`: an empty separator is the `ValueError` of `str.split`; any other separator
    (or `None`) cannot fail -/
theorem split_outcome (σ : Store) (d src : Var) (sep : Option Str) (m : Int) (r : Bool) (j : Nat) :
    (sep ≠ some [] → ((σ.step (.splitPiece d src sep m r j)).2 = .ok ∨
      (σ.step (.splitPiece d src sep m r j)).2 = .unbound)) ∧
    (sep = some [] → (σ.step (.splitPiece d src sep m r j)).2 = .err .valueError ∨
      (σ.step (.splitPiece d src sep m r j)).2 = .unbound) :=
  splitPiece_outcome σ d src sep m r j

/-- the convention for a position that does not exist in the result of `split`, `splitlines`,
    `partition`: outcome `unbound`, store unchanged; a position that exists is written to `dst`
    with outcome `ok` -/
theorem splitPiece_range (σ : Store) (d src : Var) (sep : Option Str) (m : Int) (r : Bool) (j : Nat)
    (x : AStr) (ps : List AStr) (hx : σ.get? src = some x) (hs : x.splitGen sep m r = .ok ps) :
    (∀ hj : j < ps.length, σ.step (.splitPiece d src sep m r j) = σ.commit d ps[j]) ∧
    (ps.length ≤ j → σ.step (.splitPiece d src sep m r j) = (σ, .unbound)) := by
  simp only [Store.step, Store.withVal, hx, hs]
  constructor
  · intro hj; rw [List.getElem?_eq_getElem hj]; rfl
  · intro hj; rw [List.getElem?_eq_none hj]; rfl

theorem linePiece_range (σ : Store) (d src : Var) (ke : Bool) (j : Nat) (x : AStr)
    (hx : σ.get? src = some x) :
    (∀ hj : j < (x.splitlines ke).length, σ.step (.linePiece d src ke j) = σ.commit d (x.splitlines ke)[j]) ∧
    ((x.splitlines ke).length ≤ j → σ.step (.linePiece d src ke j) = (σ, .unbound)) := by
  simp only [Store.step, Store.withVal, hx]
  constructor
  · intro hj; rw [List.getElem?_eq_getElem hj]; rfl
  · intro hj; rw [List.getElem?_eq_none hj]; rfl

theorem partPiece_range (σ : Store) (d src : Var) (sep : Str) (r : Bool) (x : AStr)
    (hx : σ.get? src = some x) :
    σ.step (.partPiece d src sep r 0) = σ.commit d (x.partitionGen sep r).1 ∧
    σ.step (.partPiece d src sep r 1) = σ.commit d (x.partitionGen sep r).2.1 ∧
    σ.step (.partPiece d src sep r 2) = σ.commit d (x.partitionGen sep r).2.2 ∧
    ∀ j, 3 ≤ j → σ.step (.partPiece d src sep r j) = (σ, .unbound) := by
  simp only [Store.step, Store.withVal, hx]
  refine ⟨rfl, rfl, rfl, fun j hj => ?_⟩
  rw [List.getElem?_eq_none (by simpa using hj)]; rfl

/-- `format_matching` inside a history (C16 for the store): when it succeeds the receiver keeps its
    text, and every character outside all the matches that `count` lets through keeps its settings
    exactly.  (`fmatch` numbers its new objects from the store's counter, see
    `AStr.formatMatchingFrom`; with the value's own numbering an identity of another variable
    could be handed out a second time — the last example of section 7 shows it.) -/
theorem fmatch_spec (σ : Store) (v : Var) (a : SArg) (spans : List (Int × Int)) (count : Int) (x : AStr)
    (hx : σ.get? v = some x) (hw : WF x) (hok : (σ.step (.fmatch v a spans count)).2 = .ok) :
    ∃ y, ((σ.step (.fmatch v a spans count)).1).get? v = some y ∧ y.s = x.s ∧ WF y ∧
      ∀ i : Nat, (∀ se ∈ takeCount count spans,
        i < sliceIdx x.len (some se.1) 0 ∨ sliceIdx x.len (some se.2) x.len ≤ i) → act y i = act x i := by
  simp only [Store.step, Store.withVal, hx] at hok ⊢
  cases hr : x.formatMatchingFrom σ.nid a spans count with
  | error e => rw [hr] at hok; cases hok
  | ok y =>
    obtain ⟨ht, hrest⟩ := formatMatchingFrom_spec x y σ.nid a spans count hr
    obtain ⟨hwy, hout⟩ := hrest hw
    refine ⟨y, ?_, ht, hwy, hout⟩
    simp only [Store.fromExcept, Store.commit, Store.get?_bump, Store.get?_put_eq]

/-- rendering without a format spec (`str(x)`, `to_str()`) never fails -/
theorem render_plain (σ : Store) (src : Var) (o rs re : Bool) :
    (∃ s, (σ.step (.render src none o rs re)).2 = .str s) ∨
      (σ.step (.render src none o rs re)).2 = .unbound := by
  simp only [Store.step, Store.withVal]
  cases σ.get? src with
  | none => exact Or.inr rfl
  | some x =>
    left
    simp only
    have : ∃ s, x.toStr none o rs re σ.nid = .ok s := by
      unfold AStr.toStr
      simp only [Bool.false_eq_true, if_false]
      split
      · exact ⟨_, rfl⟩
      · exact ⟨_, rfl⟩
    obtain ⟨s, hs⟩ := this
    rw [hs]
    exact ⟨s, rfl⟩

/-- the sources of errors, one level down: argument scrubbing raises `TypeError`/`ValueError`
    only, `x[i]` raises `IndexError` only -/
theorem scrub_errors (a : SArg) : Scrub.scrub a ≠ .error .indexError := scrub_noIdx a

theorem getIndex_errors (x : AStr) (i : Int) (e : PyErr) (h : x.getIndex i = .error e) :
    e = .indexError :=
  getIndex_err x i e h

/-! ## 5. a failed operation changes nothing (C08) -/

theorem error_atomic (σ : Store) (op : Op) (e : PyErr) (h : (σ.step op).2 = .err e) :
    (σ.step op).1 = σ :=
  Store.error_atomic σ op e h

/-- hence text, settings and rendering of every variable are what they were -/
theorem error_atomic_get (σ : Store) (op : Op) (e : PyErr) (h : (σ.step op).2 = .err e) (v : Var) :
    ((σ.step op).1).get? v = σ.get? v := by
  rw [error_atomic σ op e h]

/-- the same for a script variable that does not exist -/
theorem unbound_atomic (σ : Store) (op : Op) (_h : (σ.step op).2 = .unbound) :
    ∀ v, v ∉ op.writes → ((σ.step op).1).get? v = σ.get? v :=
  fun v hv => Store.step_frame σ op v hv

/-! ## 6. termination

  Every function of `AnsiModel/` (and of `AnsiSpec/`) is a total Lean function accepted by Lean's
  termination checker: structural recursion, well-founded recursion with a proved measure, or an
  explicit fuel argument.  No definition of the model is exempted from that check (the check
  script scans the sources for the keywords that would switch it off).  `Store.step`/`Store.run`
  are therefore total: every operation of every script terminates, with one of the outcomes of
  `outcome_documented`.

  The one loop bounded by fuel is the `while` loop of `replace` (`AStr.replaceLoop`, fuel
  `x.len + 2`).  That the fuel suffices — the loop ends because no match is left, never because
  the fuel ran out — is `C10.replace_text` / `C10.replace_text_str_any`: with that fuel the text
  of the result is exactly CPython's `str.replace` (`PySpec.replace`), which replaces every match. -/

theorem replace_fuel_suffices (x : AStr) (old : Str) (v : AStr) (count : Int) (nid : Nat)
    (h : old ≠ []) :
    (x.replace old (.astr v) count nid).s = PySpec.replace x.s old v.s count :=
  C10.replace_text x old v count nid h

theorem replace_fuel_suffices_str (x : AStr) (old raw : Str) (count : Int) (nid : Nat) (h : NoEsc raw) :
    (x.replace old (.str raw) count nid).s = PySpec.replace x.s old raw count :=
  C10.replace_text_str_any x old raw count nid h

example : "c".toList ≠ [] ∧ NoEsc "Z".toList := ⟨by decide, by unfold NoEsc; decide⟩

/-! ## 7. non-vacuity: a concrete history

  `v1 = AnsiString("a␛[1mbc", 31)`; `v2 = v1[1:]`; `v2 += v2`; `v3 = v2.center(9, "*")` (extending);
  `v3.remove_formatting(1, 3, 5)`; `v3.simplify()`. -/

def script : List Op :=
  [.new 1 "a\x1b[1mbc".toList [.int 31], .slice 2 1 (some 1) none, .iadd 2 2,
   .center 3 2 9 "*".toList true, .remove 3 (some (.int 1)) (some 3) (some 5), .simplify 3]

/-- the theorems instantiated -/
example : StoreInv (Store.run {} script) := wf_reachable script

/-- all six operations succeed -/
example : (script.foldl (fun (acc : Store × List Bool) op =>
      ((acc.1.step op).1, acc.2 ++ [match (acc.1.step op).2 with | .ok => true | _ => false]))
      (({} : Store), [])).2 = [true, true, true, true, true, true] := by decide +kernel

/-- the final values -/
example : ((Store.run {} script).get? 1).map (·.s) = some "abc".toList ∧
    ((Store.run {} script).get? 2).map (·.s) = some "bcbc".toList ∧
    ((Store.run {} script).get? 3).map (·.s) = some "**bcbc***".toList ∧
    (Store.run {} script).nid = 6 := by decide +kernel

example : (Store.run {} script).get? 3 = some
    { s := "**bcbc***".toList
      fmts := [(0, { add := [⟨3, "31".toList⟩, ⟨4, "1".toList⟩] }), (3, { rem := [⟨4, "1".toList⟩] }),
               (5, { add := [⟨5, "1".toList⟩] }), (9, { rem := [⟨3, "31".toList⟩, ⟨5, "1".toList⟩] })] } := by
  decide +kernel

/-- what the theorem says about it, re-checked by evaluation -/
example : ∀ x, (Store.run {} script).get? 3 = some x → replayOk x.fmts = true :=
  fun x h => reachable_ok script 3 x h

example : (((Store.run {} script).get? 3).map (fun x => replayOk x.fmts)) = some true ∧
    (((Store.run {} script).get? 2).map (fun x => replayOk x.fmts)) = some true ∧
    (((Store.run {} script).get? 3).map (fun x => active x.fmts x.len)) = some [] := by decide +kernel

/-- the store after the script -/
def final : Store := Store.run {} script

/-- `Outcome` has no decidable equality; this is the test used by the evaluated examples -/
def raises (o : Outcome) (e : PyErr) : Bool :=
  match o with
  | .err e' => decide (e' = e)
  | _ => false

theorem raises_iff (o : Outcome) (e : PyErr) : raises o e = true ↔ o = .err e := by
  cases o <;> simp [raises]

/-- a failing operation in the middle of a history: `IndexError`, `ValueError` (two-character
    fill), `TypeError` (a float as setting), `ValueError` (a negative code) — the store stays as it
    was and the invariant goes on -/
example :
    (final.step (.index 4 1 3)).2 = .err .indexError ∧ (final.step (.index 4 1 3)).1.vals = final.vals ∧
    (final.step (.ljust 4 1 9 "ab".toList true)).2 = .err .valueError ∧
    (final.step (.apply 1 (.bad true) none none true)).2 = .err .typeError ∧
    (final.step (.apply 1 (.int (-1)) none none true)).2 = .err .valueError :=
  ⟨(raises_iff _ _).mp (by decide +kernel), by decide +kernel, (raises_iff _ _).mp (by decide +kernel),
   (raises_iff _ _).mp (by decide +kernel), (raises_iff _ _).mp (by decide +kernel)⟩

/-- … and a `replace` with a plain `str` afterwards (the copies of the style made for each `Z` are
    merged into the neighbouring runs by `+=`) -/
def script2 : List Op := script ++ [.index 4 1 3, .replace 4 2 "c".toList (.inr "Z".toList) (-1)]

example : StoreInv (Store.run {} script2) := wf_reachable _

example : ((Store.run {} script2).get? 4).map (·.s) = some "bZbZ".toList ∧
    (((Store.run {} script2).get? 4).map (fun x => replayOk x.fmts)) = some true ∧
    (Store.run {} script2).get? 1 = (Store.run {} script).get? 1 := by decide +kernel

/-- … and the operations added later: `v4 = AnsiString.join(v1, v2, v1)`;
    `v4.format_matching("c?b", 4)` restricted by the harness to the spans (1,3) and (5,7);
    `v5 = v4.split("c")[1]`; `v6 = v5.zfill(5)`; `v7 = v4.partition("ca")[2]`;
    `v4.unformat_matching(…, 4, count=1)`; `v8 = v1.expandtabs(4)`; `v9 = v1.splitlines()[0]`;
    then `v4.split("")` (`ValueError`), `v1.splitlines()[1]` (no such piece), a `join` with a
    variable that does not exist, and `v9 = v1.clip(1)`. -/
def script3 : List Op := script ++
  [.join 4 [1, 2, 1], .fmatch 4 (.int 4) [(1, 3), (5, 7)] (-1),
   .splitPiece 5 4 (some "c".toList) (-1) false 1, .zfill 6 5 5, .partPiece 7 4 "ca".toList false 2,
   .unfmatch 4 (some (.int 4)) [(1, 3), (5, 7)] 1, .expandtabs 8 1 4, .linePiece 9 1 false 0,
   .splitPiece 9 4 (some []) (-1) false 0, .linePiece 9 1 false 1, .join 9 [1, 77], .clip 9 1 (some 1) none]

example : StoreInv (Store.run {} script3) := wf_reachable _

/-- the outcomes of the twelve added steps: 0 = ok, 1 = an error, 2 = unbound -/
example : ((script3.foldl (fun (acc : Store × List Nat) op =>
      ((acc.1.step op).1, acc.2 ++ [match (acc.1.step op).2 with | .ok => 0 | .err _ => 1 | .unbound => 2 | _ => 3]))
      (({} : Store), [])).2).drop 6 = [0, 0, 0, 0, 0, 0, 0, 0, 1, 2, 2, 0] := by decide +kernel

example : ((Store.run {} script3).get? 4).map (·.s) = some "abcbcbcabc".toList ∧
    ((Store.run {} script3).get? 5).map (·.s) = some "b".toList ∧
    ((Store.run {} script3).get? 6).map (·.s) = some "0000b".toList ∧
    ((Store.run {} script3).get? 7).map (·.s) = some "bc".toList ∧
    ((Store.run {} script3).get? 8).map (·.s) = some "abc".toList ∧
    ((Store.run {} script3).get? 9).map (·.s) = some "bc".toList ∧
    (Store.run {} script3).nid = 8 ∧
    (Store.run {} script3).get? 1 = (Store.run {} script).get? 1 := by decide +kernel

/-- `v4` at the end: the second match still carries the object 7 made by `fmatch` (the first one, 6,
    was taken away again by `unfmatch … count=1`) -/
example : (Store.run {} script3).get? 4 = some
    { s := "abcbcbcabc".toList
      fmts := [(0, { add := [⟨2, "31".toList⟩] }), (1, { add := [⟨1, "1".toList⟩] }),
               (3, { add := [⟨2, "31".toList⟩, ⟨1, "1".toList⟩], rem := [⟨1, "1".toList⟩, ⟨2, "31".toList⟩] }),
               (5, { add := [⟨2, "31".toList⟩, ⟨1, "1".toList⟩, ⟨7, "4".toList⟩],
                     rem := [⟨1, "1".toList⟩, ⟨2, "31".toList⟩] }),
               (7, { add := [⟨2, "31".toList⟩], rem := [⟨1, "1".toList⟩, ⟨2, "31".toList⟩, ⟨7, "4".toList⟩] }),
               (8, { add := [⟨1, "1".toList⟩] }),
               (10, { rem := [⟨1, "1".toList⟩, ⟨2, "31".toList⟩] })] } := by
  decide +kernel

example : ((List.range 10).map (fun v => ((Store.run {} script3).get? v).map (fun x => replayOk x.fmts))) =
    [none, some true, some true, some true, some true, some true, some true, some true, some true,
     some true] := by decide +kernel

/-- why `fmatch` takes its identities from the store's counter: `AStr.formatMatching` applied to the
    value of `v4` right after the `join` numbers its new objects from `v4`'s own `nextId = 3`, and
    3 is the identity of an object of `v3` with another text ("31", not "4") -/
example : let σ := Store.run {} (script ++ [.join 4 [1, 2, 1]])
    ((σ.get? 4).map (fun x => ((x.formatMatching (.int 4) [(1, 3), (5, 7)] (-1)).toOption.map
      (fun y => y.fmts.settings.filter (fun s => s.id == 3))))) = some (some [⟨3, "4".toList⟩, ⟨3, "4".toList⟩]) ∧
    ((σ.get? 3).map (fun x => x.fmts.settings.filter (fun s => s.id == 3))) =
      some [⟨3, "31".toList⟩, ⟨3, "31".toList⟩] := by decide +kernel

/-! hypotheses of the theorems above on this history -/

/-- `inv_step`, `run_inv`: a store satisfying the invariant -/
example : StoreInv final := wf_reachable script
example : StoreInv (final.step (.addStr 5 3 "\x1b[4mtail".toList)).1 := inv_step (wf_reachable script) _

/-- `reachable_wf`, `reachable_ok`, `reachable_shape`, `reachable_fresh`, `index_outcome`: a bound variable -/
example : ∃ x, final.get? 3 = some x ∧ x.len = 9 := ⟨_, rfl, by decide +kernel⟩

/-- `reachable_coherent`: variables 1 and 2 share the objects 1 and 2 -/
example : ∃ x y, final.get? 1 = some x ∧ final.get? 2 = some y ∧
    x.fmts.settings ≠ [] ∧ ∀ s ∈ y.fmts.settings, s ∈ x.fmts.settings :=
  ⟨_, _, rfl, rfl, by decide +kernel, by decide +kernel⟩

/-- `fmatch_spec`, `splitPiece_range`, `linePiece_range`, `partPiece_range`: a bound variable with
    `WF` (every reachable value has it), a successful `fmatch`, a successful `split` -/
example : ∃ x, final.get? 2 = some x ∧ WF x := ⟨_, rfl, reachable_wf script 2 _ rfl⟩
example : raises (final.step (.fmatch 2 (.int 4) [(1, 3)] (-1))).2 .typeError = false ∧
    (match (final.step (.fmatch 2 (.int 4) [(1, 3)] (-1))).2 with | .ok => true | _ => false) = true := by
  decide +kernel
example : ∃ x ps, final.get? 2 = some x ∧ (x.splitGen (some "c".toList) (-1) false).toOption = some ps ∧
    ps.length = 3 := ⟨_, _, rfl, rfl, by decide +kernel⟩

/-- `error_atomic`: see the failing operations above; `unbound_atomic`: variable 9 does not exist -/
example : final.get? 9 = none ∧ (5 : Var) ∉ (Op.slice 4 9 none none).writes := by decide +kernel

/-- `index_outcome` instantiated: `v3[-9]` succeeds, `v3[9]` raises -/
example : ∀ x, final.get? 3 = some x → x.len = 9 →
    (final.step (.index 4 3 (-9))).2 = .ok ∧ (final.step (.index 4 3 9)).2 = .err .indexError := by
  intro x hx hl
  have := index_outcome final 4 3
  exact ⟨((this (-9) x hx).1).mpr (by omega), ((this 9 x hx).2).mpr (by omega)⟩

end C09

#print axioms C09.inv_init
#print axioms C09.inv_step
#print axioms C09.wf_reachable
#print axioms C09.reachable_wf
#print axioms C09.reachable_ok
#print axioms C09.reachable_shape
#print axioms C09.reachable_fresh
#print axioms C09.reachable_coherent
#print axioms C09.run_inv
#print axioms C09.outcome_documented
#print axioms C09.never_fails
#print axioms C09.index_outcome
#print axioms C09.pad_outcome
#print axioms C09.render_plain
#print axioms C09.split_outcome
#print axioms C09.splitPiece_range
#print axioms C09.linePiece_range
#print axioms C09.partPiece_range
#print axioms C09.fmatch_spec
#print axioms C09.scrub_errors
#print axioms C09.getIndex_errors
#print axioms C09.error_atomic
#print axioms C09.error_atomic_get
#print axioms C09.unbound_atomic
#print axioms C09.replace_fuel_suffices
#print axioms C09.replace_fuel_suffices_str
#print axioms C09.raises_iff
