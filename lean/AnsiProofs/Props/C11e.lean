import AnsiModel.StrLike
import AnsiModel.Obj
import AnsiModel.Generated.Methods.Split
import AnsiModel.Generated.Methods.Splitlines
import AnsiModel.Generated.Methods.Partition
import AnsiModel.Generated.Methods.Rpartition
import AnsiProofs.Lemmas.StrLike
import AnsiProofs.Props.C11d

/-
  Property C11, part e — the *generated* (statement-by-statement translated) bodies of
  `AnsiString._split` (behind `split`/`rsplit`), `splitlines`, `partition` and `rpartition` compute
  exactly what the hand-written model says (`AStr.splitGen`, `AStr.splitlines`, `AStr.partitionGen`);
  the only exception is `str`'s ValueError for an empty separator, nothing falls outside the model's
  representation (`Py.optGet sep` is only reached under `sep is not None`).

  The one place where code and model are written differently is the offset recovery
  `idx = self._s.find(s, idx)`: the code keeps Python's `-1` (`Py.findInt`, start clamped by
  `Py.listIdx`), the model writes `(Py.find s p idx).getD 0` over naturals.  The two agree as long as
  every `find` of the recovery succeeds (`L.FindsAll`), and that is a theorem about what `str.split`,
  `str.rsplit` and `str.splitlines` return (each piece occurs at or after the running offset:
  `StrLikeL.Occ`, from `joinSep sep pieces = s` resp. `StrLikeL.InOrder pieces s`), so all four
  equalities are unconditional.

  * `namespace C11e.L` — nothing there mentions `Gen.*`: `FindsAll` and why it holds for the five
    splitters (`finds_pySplit`, `finds_splitlines`); the two loops as folds of *any* step function
    meeting a one-clause spec (`fold_offsets0`: "append `(find, len)`, advance by `len + gap`";
    `fold_slices`: "append the slice"); `findInt`/`rfindInt` versus `find`/`rfind`.
  * `namespace C11e` — the theorems over `Gen.*`: `unfold`, `cases`, `rw` with the fold lemmas (the
    spec clauses are side goals closed by `intros; cases sep <;> simp`), `simp`.
-/

namespace C11e
namespace L
open StrLikeL
open C11d.L (bind_ok)

theorem bind_error {ε α β : Type} (e : ε) (f : α → Except ε β) : (Except.error e : Except ε α).bind f = .error e :=
  rfl

/-! ## every `find` of the offset recovery succeeds -/

/-- the hypothesis the model takes for granted ("find() cannot fail for a piece of s") -/
def FindsAll (s : Str) (gap : Nat) : List Str → Nat → Prop
  | [], _ => True
  | p :: rest, idx => ∃ a, Py.find s p idx = some a ∧ FindsAll s gap rest (a + p.length + gap)

/-- pieces that occur in order (each at or after the running offset) are all found — possibly earlier
    than where they came from, which only moves the running offset back -/
theorem findsAll_of_occ {s : Str} {gap : Nat} {ps : List Str} {idx : Nat} (h : Occ s gap ps idx) :
    FindsAll s gap ps idx := by
  induction ps generalizing idx with
  | nil => trivial
  | cons p rest ih =>
    obtain ⟨t, h1, h2, h3, h4⟩ := h
    obtain ⟨j, hf, _, hj2, _⟩ := find_of_match s p idx t h2 h1 h3
    exact ⟨j, hf, ih (Occ_mono h4 (by omega))⟩

/-- the `len(sep)` added to the running offset (`0` when `sep is None`) -/
def gapOf : Option Str → Nat
  | none => 0
  | some sp => sp.length

theorem occ_of_join (s sp : Str) (ps : List Str) (hne : ps ≠ []) (hj : joinSep sp ps = s) :
    Occ s sp.length ps 0 :=
  (join_laid sp ps hne s [] (by simp [hj])).2

theorem finds_pySplit {s : Str} {sep : Option Str} {m : Int} {r : Bool} {ps : List Str}
    (h : Py.pySplit s sep m r = .ok ps) : FindsAll s (gapOf sep) ps 0 := by
  apply findsAll_of_occ
  unfold Py.pySplit at h
  rcases sep with _ | _ | ⟨c, cs⟩
  · cases r
    · cases h; exact (splitWs_sub s m).occ s [] rfl
    · cases h; exact (rsplitWs_sub s m).occ s [] rfl
  · cases h
  · cases r
    · cases h; exact occ_of_join _ _ _ (splitSep_ne _ _ _) (splitSep_join _ _ _)
    · cases h; exact occ_of_join _ _ _ (rsplitSep_ne _ _ _) (rsplitSep_join _ _ _)

theorem finds_splitlines (s : Str) (keep : Bool) : FindsAll s 0 (Py.splitlines s keep) 0 :=
  findsAll_of_occ ((splitlines_sub s keep).occ s [] rfl)

/-- the model's `_split` in terms of `Py.pySplit` -/
theorem splitGen_of_ok {x : AStr} {sep : Option Str} {m : Int} {r : Bool} {ps : List Str}
    (h : Py.pySplit x.s sep m r = .ok ps) :
    x.splitGen sep m r = .ok (x.piecesAt (AStr.pieceOffsets x.s (gapOf sep) ps 0)) := by
  unfold Py.pySplit at h
  rcases sep with _ | _ | ⟨c, cs⟩
  · cases h; rfl
  · cases h
  · cases h; rfl

theorem splitGen_of_error {x : AStr} {sep : Option Str} {m : Int} {r : Bool} {e : Exc}
    (h : Py.pySplit x.s sep m r = .error e) :
    e = .py .valueError ∧ x.splitGen sep m r = .error .valueError := by
  unfold Py.pySplit at h
  rcases sep with _ | _ | ⟨c, cs⟩
  · cases h
  · cases h; exact ⟨rfl, rfl⟩
  · cases h

/-! ## `findInt`/`rfindInt` versus `find`/`rfind` -/

theorem findInt_of_find {s p : Str} {k a : Nat} (h : Py.find s p k = some a) :
    Py.findInt s p (k : Int) = (a : Int) := by
  obtain ⟨h1, h2, -, -⟩ := (find_some_iff _ _ _ _).mp h
  have hk : Py.listIdx s.length (k : Int) = k := by
    unfold Py.listIdx
    rw [if_neg (by omega)]
    simp only [Int.toNat_natCast]
    omega
  unfold Py.findInt
  rw [hk, h]

theorem findInt_zero (s p : Str) :
    Py.findInt s p 0 = match Py.find s p 0 with | some i => (i : Int) | none => -1 := by
  unfold Py.findInt
  have : Py.listIdx s.length 0 = 0 := by simp [Py.listIdx]
  rw [this]
  cases Py.find s p 0 <;> rfl

/-- however the code tests the sign of the result of `find` -/
theorem nat_not_neg (i : Nat) : ¬ ((i : Int) < 0) := by omega
theorem nat_nonneg (i : Nat) : (i : Int) ≥ 0 := by omega
theorem nat_ne_neg_one (i : Nat) : (i : Int) ≠ -1 := by omega

/-! ## the two loops -/

/-- where the running offset ends up (the code keeps it, nobody reads it) -/
def endOffset (s : Str) (gap : Nat) : List Str → Nat → Nat
  | [], idx => idx
  | p :: rest, idx => endOffset s gap rest ((Py.find s p idx).getD 0 + p.length + gap)

/-- the model's offsets as the code holds them -/
def castOffs (l : List (Nat × Nat)) : List (Int × Int) := l.map (fun ol => ((ol.1 : Int), (ol.2 : Int)))

/-- `for s in str_splits: idx = self._s.find(s, idx); split_idx_len.append((idx, len(s))); idx += len(s) + gap` -/
theorem fold_offsets {s : Str} {gap : Nat}
    (f : Int × List (Int × Int) → Str → Except Exc (Int × List (Int × Int)))
    (hf : ∀ i acc p, f (i, acc) p =
      .ok (Py.findInt s p i + (p.length : Int) + (gap : Int), acc ++ [(Py.findInt s p i, (p.length : Int))]))
    (ps : List Str) (k : Nat) (acc : List (Int × Int)) (h : FindsAll s gap ps k) :
    List.foldlM f ((k : Int), acc) ps =
      .ok (((endOffset s gap ps k : Nat) : Int), acc ++ castOffs (AStr.pieceOffsets s gap ps k)) := by
  induction ps generalizing k acc with
  | nil => simp [List.foldlM, pure, Except.pure, endOffset, AStr.pieceOffsets, castOffs]
  | cons p rest ih =>
    obtain ⟨a, ha, hrest⟩ := h
    rw [List.foldlM_cons, hf, findInt_of_find ha]
    show List.foldlM f _ rest = _
    have hc : (a : Int) + (p.length : Int) + (gap : Int) = ((a + p.length + gap : Nat) : Int) := by
      omega
    rw [hc, ih _ _ hrest]
    simp [endOffset, AStr.pieceOffsets, castOffs, ha]

theorem fold_offsets0 {s : Str} {gap : Nat}
    (f : Int × List (Int × Int) → Str → Except Exc (Int × List (Int × Int)))
    (hf : ∀ i acc p, f (i, acc) p =
      .ok (Py.findInt s p i + (p.length : Int) + (gap : Int), acc ++ [(Py.findInt s p i, (p.length : Int))]))
    (ps : List Str) (h : FindsAll s gap ps 0) :
    List.foldlM f ((0 : Int), []) ps =
      .ok (((endOffset s gap ps 0 : Nat) : Int), castOffs (AStr.pieceOffsets s gap ps 0)) := by
  have := fold_offsets f hf ps 0 [] h
  simpa using this

/-- `for idx, length in split_idx_len: ansi_str_splits.append(self[idx:idx+length])` -/
theorem fold_slices (x : AStr) (g : List AStr → Int × Int → Except Exc (List AStr))
    (hg : ∀ acc i n, g acc (i, n) = .ok (acc ++ [x.getSlice (some i) (some (i + n))]))
    (l : List (Int × Int)) (acc : List AStr) :
    List.foldlM g acc l = .ok (acc ++ l.map (fun il => x.getSlice (some il.1) (some (il.1 + il.2)))) := by
  induction l generalizing acc with
  | nil => simp [List.foldlM, pure, Except.pure]
  | cons il rest ih =>
    obtain ⟨i, n⟩ := il
    rw [List.foldlM_cons, hg]
    show List.foldlM g _ rest = _
    rw [ih]
    simp

theorem fold_slices0 (x : AStr) (g : List AStr → Int × Int → Except Exc (List AStr))
    (hg : ∀ acc i n, g acc (i, n) = .ok (acc ++ [x.getSlice (some i) (some (i + n))]))
    (offs : List (Nat × Nat)) :
    List.foldlM g [] (castOffs offs) = .ok (x.piecesAt offs) := by
  rw [fold_slices x g hg]
  simp [castOffs, AStr.piecesAt, List.map_map, Function.comp_def]

end L

open L
open C11d.L (bind_ok)

/-! ## `_split` -/

set_option linter.unusedSimpArgs false in
/-- the code under the hypothesis that is visible at the level of the loop: every `find` succeeds -/
theorem split_is_code_of_finds (x : AStr) (sep : Option Str) (maxsplit : Int) (r : Bool)
    (hfinds : ∀ ps, Py.pySplit x.s sep maxsplit r = .ok ps → FindsAll x.s (gapOf sep) ps 0) :
    Gen.split x sep maxsplit r =
      match x.splitGen sep maxsplit r with
      | .ok l => .ok l
      | .error e => .error (.py e) := by
  unfold Gen.split
  cases r <;> (try simp only [Bool.false_eq_true, if_true, if_false])
  all_goals
    cases h : Py.pySplit x.s sep maxsplit _ with
    | error e =>
      obtain ⟨he, hm⟩ := splitGen_of_error h
      rw [hm, he]; rfl
    | ok ps =>
      rw [splitGen_of_ok h, bind_ok]
      simp only []
      rw [fold_offsets0 (s := x.s) (gap := gapOf sep) _ ?hf _ (hfinds _ h), bind_ok]
      simp only []
      rw [fold_slices0 x _ ?hg, bind_ok]
      case hf => intros; cases sep <;> simp [Py.optGet, bind_ok, gapOf, Int.add_assoc]
      case hg => intros; rfl

theorem split_is_code (x : AStr) (sep : Option Str) (maxsplit : Int) (r : Bool) :
    Gen.split x sep maxsplit r =
      match x.splitGen sep maxsplit r with
      | .ok l => .ok l
      | .error e => .error (.py e) :=
  split_is_code_of_finds x sep maxsplit r (fun _ h => finds_pySplit h)

/-! ## `splitlines` -/

set_option linter.unusedSimpArgs false in
theorem splitlines_is_code (x : AStr) (keepends : Bool) :
    Gen.splitlines x keepends = .ok (x.splitlines keepends) := by
  unfold Gen.splitlines AStr.splitlines
  simp only []
  rw [fold_offsets0 (s := x.s) (gap := 0) _ ?hf _ (finds_splitlines _ _), bind_ok]
  simp only []
  rw [fold_slices0 x _ ?hg, bind_ok]
  case hf => intros; simp [Int.add_assoc]
  case hg => intros; rfl

/-! ## `partition` / `rpartition` -/

set_option linter.unusedSimpArgs false in
theorem partition_is_code (x : AStr) (sep : Str) : Gen.partition x sep = .ok (x.partitionGen sep false) := by
  unfold Gen.partition AStr.partitionGen
  rw [findInt_zero]
  cases Py.find x.s sep 0 <;> simp [nat_not_neg, nat_nonneg, nat_ne_neg_one]

set_option linter.unusedSimpArgs false in
theorem rpartition_is_code (x : AStr) (sep : Str) : Gen.rpartition x sep = .ok (x.partitionGen sep true) := by
  unfold Gen.rpartition AStr.partitionGen Py.rfindInt
  cases Py.rfind x.s sep <;> simp [nat_not_neg, nat_nonneg, nat_ne_neg_one]

/-- all four were translated (none fell outside the translator's fragment) -/
theorem translated :
    Gen.splitOk = true ∧ Gen.splitlinesOk = true ∧ Gen.partitionOk = true ∧ Gen.rpartitionOk = true := by
  decide

theorem split_never_outside (x : AStr) (sep : Option Str) (maxsplit : Int) (r : Bool) (err : Exc)
    (h : Gen.split x sep maxsplit r = .error err) : err = .py .valueError ∧ sep = some [] := by
  rw [split_is_code] at h
  rcases sep with _ | _ | ⟨c, cs⟩
  · cases h
  · cases h; exact ⟨rfl, rfl⟩
  · cases h

/-! ## Concrete values -/

/-- `"ab c\nd c"` with `31` over the whole text and `1` over `"c\nd"` -/
def x0 : AStr :=
  { s := "ab c\nd c".toList,
    fmts := [(0, { add := [⟨0, "31".toList⟩] }), (3, { add := [⟨1, "1".toList⟩] }),
             (6, { rem := [⟨1, "1".toList⟩] }), (8, { rem := [⟨0, "31".toList⟩] })] }

example : Gen.split x0 none (-1) false =
    match x0.splitGen none (-1) false with | .ok l => .ok l | .error e => .error (.py e) := by decide +kernel
example : Gen.split x0 (some " ".toList) 1 true =
    match x0.splitGen (some " ".toList) 1 true with | .ok l => .ok l | .error e => .error (.py e) := by decide +kernel
example : Gen.split x0 (some "c".toList) (-1) false =
    match x0.splitGen (some "c".toList) (-1) false with | .ok l => .ok l | .error e => .error (.py e) := by
  decide +kernel
example : (x0.splitGen (some "c".toList) (-1) false).toOption.map List.length = some 3 := by decide +kernel
example : Gen.split x0 (some []) (-1) false = .error (.py .valueError) ∧
    x0.splitGen (some []) (-1) false = .error .valueError := by decide +kernel
example : Gen.splitlines x0 true = .ok (x0.splitlines true) := by decide +kernel
example : Gen.partition x0 " c".toList = .ok (x0.partitionGen " c".toList false) := by decide +kernel
example : Gen.rpartition x0 " c".toList = .ok (x0.partitionGen " c".toList true) := by decide +kernel
example : Gen.rpartition x0 "zz".toList = .ok (x0, {}, {}) := by decide +kernel

/-- the hypothesis of `split_is_code_of_finds` on a concrete value -/
example : ∀ ps, Py.pySplit x0.s (some " ".toList) 1 true = .ok ps → FindsAll x0.s (gapOf (some " ".toList)) ps 0 :=
  fun _ h => finds_pySplit h

/-- the value itself: four words with the table re-based -/
example : Gen.split x0 none (-1) false = .ok
    [ { s := "ab".toList, fmts := [(0, { add := [⟨0, "31".toList⟩] }), (2, { rem := [⟨0, "31".toList⟩] })] },
      { s := "c".toList,
        fmts := [(0, { add := [⟨0, "31".toList⟩, ⟨1, "1".toList⟩] }), (1, { rem := [⟨0, "31".toList⟩, ⟨1, "1".toList⟩] })] },
      { s := "d".toList,
        fmts := [(0, { add := [⟨0, "31".toList⟩, ⟨1, "1".toList⟩] }), (1, { rem := [⟨1, "1".toList⟩, ⟨0, "31".toList⟩] })] },
      { s := "c".toList, fmts := [(0, { add := [⟨0, "31".toList⟩] }), (1, { rem := [⟨0, "31".toList⟩] })] } ] := by
  decide +kernel

end C11e

#print axioms C11e.split_is_code
#print axioms C11e.split_is_code_of_finds
#print axioms C11e.splitlines_is_code
#print axioms C11e.partition_is_code
#print axioms C11e.rpartition_is_code
#print axioms C11e.translated
#print axioms C11e.split_never_outside
