import AnsiProofs.Props.C05c
import AnsiProofs.Lemmas.Apply
import AnsiModel.Generated.Methods.ApplyCore
/-
  Property C06, part d — the *generated* (statement-by-statement translated) body of
  `AnsiString.apply_formatting` (`Gen.applyCore`, the statements after the call of
  `_scrub_ansi_settings`) and `_AnsiSettingPoint.insert_settings` (`Gen.insertSettings`) of
  `AnsiModel/Generated/Methods.lean` compute exactly what the hand-written model
  (`AStr.applyFormatting`, `AnsiModel/Format.lean`) says, on values whose table is sorted; the outcomes
  `Exc.key` / `Exc.outside` never happen there.

  The file is split in two:

  * `namespace C06d.L` — everything that does not mention `Gen.applyCore`/`Gen.insertSettings`: the
    primitives of `AnsiModel/Obj.lean` on natural keys (`has_nat`, `set_nat`, `get_nat`,
    `modifyAt_nat`), `Py.sliceAssign` at an empty slice (`sliceAssign_nat`), the `for` loop that
    appends under a condition is a filter (`foldlM_filter`, and `foldlM_filter_not` for the loop written
    with `continue`), two `modify` at one key compose (`modify_modify`), `k in d` after
    `if k not in d: d[k] = …` without any assumption on the table (`contains_ensure_self`),
    `ansi_settings_at` inside the text (`ansiSettingsAt_nat`), `_find_setting_reference … < 0` / `>= 0`
    through C05c (`find_lt_zero`, `find_ge_zero`), truth of a list written with `len`, glue for
    `if`/`bind` in `Except`.
  * `namespace C06d` — the theorems over `Gen.*`: `unfold`, `cases` on `N.isEmpty` and `topmost`, one
    `simp only` with the lemmas of `L`.  The same script was run unchanged against a rewritten variant
    of the generated function (`len(ansi_settings) == 0`, `if start in self._fmts: pass else: …`,
    `if topmost: pass else: …`, `n = len(ansi_settings)` bound first, `if find(...) >= 0: continue`,
    `if len(remove_and_add_settings) > 0`, no trailing rebinding of `self`) and passed.

  Finding: the hypothesis `SortedKeys x.fmts` of `applyCore_is_code` is not needed (`applyCore_eq`):
  `get?` after `ensure`/`set` at the same key follows the path `set` took, and `modify` does not change
  which keys `get?` sees, so on *every* table the translated statements and the model agree.
-/

namespace C06d
namespace L

/-! ## `Except` glue -/

theorem bind_ok {ε α β : Type} (a : α) (f : α → Except ε β) : (Except.ok a).bind f = f a := rfl

/-- both branches of an `if` statement end normally (stated for the object only, so that the
    conditional append in the loop body keeps its shape for `foldlM_filter`) -/
theorem ite_ok {ε : Type} (c : Prop) [Decidable c] (a b : AStr) :
    (if c then (Except.ok a : Except ε AStr) else .ok b) = .ok (if c then a else b) := by
  split <;> rfl

/-- `if not b: A else: B` (for the object only, as `ite_ok`) -/
theorem ite_bnot (b : Bool) (a c : AStr) :
    (if (!b) = true then a else c) = if b = true then c else a := by
  cases b <;> rfl

theorem ite_bnot_fmts (b : Bool) (a c : Fmts) :
    (if (!b) = true then a else c) = if b = true then c else a := by
  cases b <;> rfl

theorem ite_astr (c : Prop) [Decidable c] (s : Str) (A B : Fmts) :
    (if c then ({ s := s, fmts := A } : AStr) else { s := s, fmts := B }) =
      { s := s, fmts := if c then A else B } := by
  split <;> rfl

/-- a `for` loop that appends the element when a condition holds and does nothing otherwise -/
theorem foldlM_filter {ε α : Type} (c : α → Bool) (l : List α) (acc : List α) :
    List.foldlM (m := Except ε) (fun acc a => if c a = true then .ok (acc ++ [a]) else .ok acc) acc l =
      .ok (acc ++ l.filter c) := by
  induction l generalizing acc with
  | nil => simp [List.foldlM, pure, Except.pure]
  | cons a l ih =>
    rw [List.foldlM_cons]
    cases h : c a with
    | true =>
      simp only [if_true, List.filter_cons, h]
      show List.foldlM _ (acc ++ [a]) l = _
      rw [ih]; simp
    | false =>
      simp only [Bool.false_eq_true, if_false, List.filter_cons, h]
      show List.foldlM _ acc l = _
      rw [ih]

/-- the same loop written with `continue`: `if c: continue` before the append -/
theorem foldlM_filter_not {ε α : Type} (c : α → Bool) (l : List α) (acc : List α) :
    List.foldlM (m := Except ε) (fun acc a => if c a = true then .ok acc else .ok (acc ++ [a])) acc l =
      .ok (acc ++ l.filter (fun a => !c a)) := by
  rw [← foldlM_filter]
  congr 1
  funext acc a
  cases c a <;> rfl

/-! ## Truth value of a list written with `len` -/

theorem length_eq_zero_dec {α : Type} (l : List α) : decide ((l.length : Int) = 0) = l.isEmpty := by
  cases l <;> simp <;> omega

theorem length_ne_zero_dec {α : Type} (l : List α) : decide ((l.length : Int) ≠ 0) = !l.isEmpty := by
  cases l <;> simp <;> omega

theorem length_pos_dec {α : Type} (l : List α) : decide ((l.length : Int) > 0) = !l.isEmpty := by
  cases l <;> simp <;> omega

/-! ## The primitives of `AnsiModel/Obj.lean` on keys that are natural numbers -/

theorem has_nat (f : Fmts) (k : Nat) : Obj.has f (k : Int) = f.contains k := by
  unfold Obj.has
  simp

theorem set_nat (f : Fmts) (k : Nat) (p : Point) : Obj.set f (k : Int) p = .ok (f.set k p) := by
  unfold Obj.set
  have : ¬ ((k : Int) < 0) := by omega
  simp only [this, if_false, Int.toNat_natCast]

theorem get_nat {f : Fmts} {k : Nat} (h : f.contains k = true) :
    Obj.get f (k : Int) = .ok (f.getD k) := by
  unfold Obj.get Fmts.getD
  unfold Fmts.contains at h
  have : ¬ ((k : Int) < 0) := by omega
  rw [if_neg this, Int.toNat_natCast]
  cases hg : f.get? k with
  | none => simp [hg] at h
  | some p => rfl

theorem modifyAt_nat {f : Fmts} {k : Nat} (g : Point → Point) (h : f.contains k = true) :
    Obj.modifyAt f (k : Int) g = .ok (f.modify k g) := by
  unfold Obj.modifyAt
  unfold Fmts.contains at h
  have : ¬ ((k : Int) < 0) := by omega
  rw [if_neg this, Int.toNat_natCast]
  cases hg : f.get? k with
  | none => simp [hg] at h
  | some p => rfl

/-- `d[k] = p; k in d` — the search of `get?` follows the path `set` took, sorted or not -/
theorem contains_set_self (f : Fmts) (k : Nat) (p : Point) : (f.set k p).contains k = true := by
  unfold Fmts.contains
  induction f with
  | nil => simp [Fmts.set, Fmts.get?]
  | cons kp rest ih =>
    obtain ⟨k', p'⟩ := kp
    unfold Fmts.set
    by_cases h1 : k' = k
    · simp [h1, Fmts.get?]
    · by_cases h2 : k < k'
      · simp [h1, h2, Fmts.get?]
      · simpa [h1, h2, Fmts.get?] using ih

theorem contains_ensure_self (f : Fmts) (k : Nat) : (f.ensure k).contains k = true := by
  unfold Fmts.ensure
  split
  · assumption
  · exact contains_set_self f k {}

/-- `if k not in d: d[k] = Point()` -/
theorem ensure_eq (f : Fmts) (k : Nat) :
    (if f.contains k = true then f else f.set k {}) = f.ensure k := rfl

/-- `l[k:k] = P` for `k ≥ 0` -/
theorem sliceAssign_nat {α : Type} (l : List α) (k : Nat) (P : List α) :
    Py.sliceAssign l (k : Int) (k : Int) P = l.take k ++ P ++ l.drop k := by
  unfold Py.sliceAssign Py.listIdx
  have : ¬ ((k : Int) < 0) := by omega
  simp only [this, if_false, Int.toNat_natCast, Nat.max_self]
  congr 1
  · congr 1
    rw [List.take_eq_take_iff]; omega
  · by_cases h : k ≤ l.length
    · rw [Nat.min_eq_left h]
    · rw [Nat.min_eq_right (by omega), List.drop_length, List.drop_of_length_le (by omega)]

/-- two updates of the point at one key are one update -/
theorem modify_modify (f : Fmts) (k : Nat) (g g' : Point → Point) :
    (f.modify k g).modify k g' = f.modify k (fun p => g' (g p)) := by
  induction f with
  | nil => rfl
  | cons kp rest ih =>
    obtain ⟨k', p'⟩ := kp
    unfold Fmts.modify
    by_cases h1 : k' = k
    · simp only [h1, if_true]
      unfold Fmts.modify
      simp
    · simp only [h1, if_false]
      rw [Fmts.modify]
      simp only [h1, if_false, ih]

/-- `ansi_settings_at(idx)` for an index inside the text -/
theorem ansiSettingsAt_nat (s : Str) (f : Fmts) (k : Nat) (h : k < s.length) :
    AStr.ansiSettingsAt { s := s, fmts := f } (k : Int) = active f k := by
  unfold AStr.ansiSettingsAt AStr.len
  have : (0 : Int) ≤ (k : Int) ∧ (k : Int) < ((s.length : Nat) : Int) := by omega
  simp only [this, and_self, if_true, Int.toNat_natCast]

/-- `_find_setting_reference(s, l) < 0` says that the object `s` is not in `l` (C05c) -/
theorem find_lt_zero (s : Setting) (l : List Setting) :
    decide (Gen.findSettingReference s l < 0) = !hasId l s.id := by
  rw [← C05c.find_reference_is_code]
  by_cases h : Gen.findSettingReference s l < 0
  · have : ¬ Gen.findSettingReference s l ≥ 0 := by omega
    simp [h, this]
  · have : Gen.findSettingReference s l ≥ 0 := by omega
    simp [h, this]

/-- `_find_setting_reference(s, l) >= 0` says that the object `s` is in `l` (C05c) -/
theorem find_ge_zero (s : Setting) (l : List Setting) :
    decide (Gen.findSettingReference s l ≥ 0) = hasId l s.id := C05c.find_reference_is_code s l

end L

open L

/-- `_AnsiSettingPoint.insert_settings`, as translated, is what the model of `apply_formatting` inlines -/
theorem insert_is_code (p : Point) (apply : Bool) (L : List Setting) (top : Bool) :
    Gen.insertSettings p apply L top =
      if apply then { p with add := if top then p.add ++ L else L ++ p.add }
      else { p with rem := if top then p.rem ++ L else L ++ p.rem } := by
  unfold Gen.insertSettings
  cases apply <;> cases top <;> rfl

/-- all of them were translated (none fell outside the translator's fragment) -/
theorem translated : Gen.insertSettingsOk = true ∧ Gen.applyCoreOk = true := by decide

/-- `apply_formatting` with nothing to apply -/
theorem applyCore_empty (x : AStr) (st en : Int) (top : Bool) : Gen.applyCore x [] st en top = .ok x := by
  unfold Gen.applyCore
  simp

set_option linter.unusedSimpArgs false in
/-- The statements of `apply_formatting` after the scrubbing, as translated from the source, compute the
    model function whenever the guard at the top of `apply_formatting` lets them run — whether the
    table is sorted or not (`get?` after `set`/`ensure` at the same key follows the same path). -/
theorem applyCore_eq (x : AStr) (N : List Setting) (s e : Option Int) (top : Bool)
    (hgo : ¬ (sliceIdx x.len s 0 ≥ x.len ∨ sliceIdx x.len e x.len ≤ sliceIdx x.len s 0)) :
    Gen.applyCore x N (sliceIdx x.len s 0 : Nat) (sliceIdx x.len e x.len : Nat) top =
      .ok (x.applyFormatting N s e top) := by
  unfold AStr.applyFormatting
  simp only [hgo, if_false]
  generalize sliceIdx x.len s 0 = st at *
  generalize sliceIdx x.len e x.len = en at *
  have hlt : st < x.s.length := by unfold AStr.len at hgo; omega
  obtain ⟨xs, xf⟩ := x
  simp only at hlt
  unfold Gen.applyCore
  cases hN : N.isEmpty <;> cases top <;>
    simp (maxDischargeDepth := 4) only [insert_is_code, has_nat, set_nat, get_nat, modifyAt_nat,
      ansiSettingsAt_nat, find_lt_zero, find_ge_zero, foldlM_filter, foldlM_filter_not, modify_modify,
      sliceAssign_nat, ensure_eq, bind_ok, ite_ok, ite_bnot, ite_bnot_fmts, ite_astr,
      contains_ensure_self, Fmts.contains_modify, hlt, hN,
      length_eq_zero_dec, length_ne_zero_dec, length_pos_dec,
      List.nil_append, Bool.not_true, Bool.not_false, Bool.false_eq_true, if_false, if_true]

/-- The statements of `apply_formatting` after the scrubbing, as translated from the source, compute the
    model function; in particular no `KeyError` and nothing outside the model's representation.
    (`hs` is not used: `applyCore_eq` holds for every table.) -/
theorem applyCore_is_code (x : AStr) (_hs : SortedKeys x.fmts) (N : List Setting) (s e : Option Int)
    (top : Bool)
    (hgo : ¬ (sliceIdx x.len s 0 ≥ x.len ∨ sliceIdx x.len e x.len ≤ sliceIdx x.len s 0)) :
    Gen.applyCore x N (sliceIdx x.len s 0 : Nat) (sliceIdx x.len e x.len : Nat) top =
      .ok (x.applyFormatting N s e top) :=
  applyCore_eq x N s e top hgo

/-- under the same hypotheses the translated statements raise nothing: no `KeyError`, nothing outside
    the model's representation, no Python exception -/
theorem applyCore_never_outside (x : AStr) (hs : SortedKeys x.fmts) (N : List Setting) (s e : Option Int)
    (top : Bool)
    (hgo : ¬ (sliceIdx x.len s 0 ≥ x.len ∨ sliceIdx x.len e x.len ≤ sliceIdx x.len s 0)) (err : Exc) :
    Gen.applyCore x N (sliceIdx x.len s 0 : Nat) (sliceIdx x.len e x.len : Nat) top ≠ .error err := by
  rw [applyCore_is_code x hs N s e top hgo]
  intro h; cases h

/-! ## Non-vacuity: a concrete value, both values of `topmost` -/

/-- "abcd" with one setting (object 0, `31`) from 0 to 4 -/
def x0 : AStr :=
  { s := "abcd".toList, fmts := [(0, { add := [⟨0, "31".toList⟩] }), (4, { rem := [⟨0, "31".toList⟩] })] }

def N0 : List Setting := [⟨7, "1".toList⟩]

/-- the hypotheses of `applyCore_is_code` hold for `x0`, start 1, end 3 -/
example : SortedKeys x0.fmts ∧
    ¬ (sliceIdx x0.len (some 1) 0 ≥ x0.len ∨ sliceIdx x0.len (some 3) x0.len ≤ sliceIdx x0.len (some 1) 0) := by
  constructor
  · simp [x0, SortedKeys]
  · decide

example : Gen.applyCore x0 N0 1 3 true = .ok (x0.applyFormatting N0 (some 1) (some 3) true) := by
  decide +kernel

example : Gen.applyCore x0 N0 1 3 false = .ok (x0.applyFormatting N0 (some 1) (some 3) false) := by
  decide +kernel

/-- the value itself: below the top the active setting is stopped and restarted behind the new one -/
example : Gen.applyCore x0 N0 1 3 false = .ok
    { s := "abcd".toList,
      fmts := [(0, { add := [⟨0, "31".toList⟩] }),
               (1, { add := [⟨7, "1".toList⟩, ⟨0, "31".toList⟩], rem := [⟨0, "31".toList⟩] }),
               (3, { rem := [⟨7, "1".toList⟩] }),
               (4, { rem := [⟨0, "31".toList⟩] })] } := by
  decide +kernel

example : Gen.applyCore x0 N0 1 3 true = .ok
    { s := "abcd".toList,
      fmts := [(0, { add := [⟨0, "31".toList⟩] }),
               (1, { add := [⟨7, "1".toList⟩] }),
               (3, { rem := [⟨7, "1".toList⟩] }),
               (4, { rem := [⟨0, "31".toList⟩] })] } := by
  decide +kernel

/-- negative slice bounds, end at the very end (key 4 exists already) -/
example : Gen.applyCore x0 N0 (sliceIdx x0.len (some (-3)) 0 : Nat) (sliceIdx x0.len none x0.len : Nat) false =
    .ok (x0.applyFormatting N0 (some (-3)) none false) := by
  decide +kernel

end C06d

#print axioms C06d.insert_is_code
#print axioms C06d.applyCore_eq
#print axioms C06d.applyCore_is_code
#print axioms C06d.applyCore_never_outside
#print axioms C06d.applyCore_empty
