import AnsiModel.Concat
import AnsiModel.Generated.Wrappers
/-
  Property C05, part c — the identity helpers of `__iadd__`, from the source.

  `_find_setting_reference`, `_same_setting_references` and `_find_settings_references` decide *which
  object* a marker refers to; the seam logic of `+=` (and slicing, removal) stands on them, and the
  defects D4 and D22 were exactly here (`in` / `==` where `is` was meant; an order-insensitive
  comparison).  `Gen.findSettingReference`, `Gen.sameSettingReferences`, `Gen.findSettingsReferences`
  are these functions translated from the source on every run by loop idiom (harness/pylist.py:
  search loop, `all(… for … in zip(…))`, nested collect loop; `a is b` becomes `a.id == b.id`).
  The theorems tie them to the hand-written `hasId`, `sameRefs`, `findRefs` of the model.
-/
namespace C05c

/-- all three were translated (none fell outside the idioms) -/
theorem translated : Gen.findSettingReferenceOk = true ∧ Gen.sameSettingReferencesOk = true ∧
    Gen.findSettingsReferencesOk = true := by decide

private theorem find_zipIdx (p : Setting → Bool) (l : List Setting) (n : Nat) :
    ((l.zipIdx n).find? (fun x => p x.1)).map (·.2) = (l.findIdx? p).map (· + n) := by
  induction l generalizing n with
  | nil => simp
  | cons a l ih =>
    simp only [List.zipIdx_cons, List.find?_cons, List.findIdx?_cons]
    cases h : p a with
    | true => simp
    | false =>
      simp only [ih (n+1), Bool.false_eq_true, if_false, Option.map_map]
      congr 1
      funext i
      simp only [Function.comp_apply]; omega

/-- whatever the shape of the search predicate `P` of the generated loop, if it agrees pointwise with
    `q` on the element, the pair search over `zipIdx` is the index search -/
private theorem find_core (q : Setting → Bool) (l : List Setting) {P : Setting × Nat → Bool}
    (hP : ∀ s i, P (s, i) = q s) :
    ((l.zipIdx).find? P).map (·.2) = l.findIdx? q := by
  have hPq : P = fun x => q x.1 := by funext ⟨s, i⟩; exact hP s i
  subst hPq
  have h := find_zipIdx q l 0
  simp only [Nat.add_zero] at h
  rw [h]
  cases l.findIdx? q <;> rfl

private theorem find_some (q : Setting → Bool) (l : List Setting) {P : Setting × Nat → Bool}
    (hP : ∀ s i, P (s, i) = q s) {s : Setting} {i : Nat} (h : (l.zipIdx).find? P = some (s, i)) :
    l.findIdx? q = some i := by
  have := find_core q l hP
  rw [h] at this
  exact this.symm

private theorem find_none (q : Setting → Bool) (l : List Setting) {P : Setting × Nat → Bool}
    (hP : ∀ s i, P (s, i) = q s) (h : (l.zipIdx).find? P = none) :
    l.findIdx? q = none := by
  have := find_core q l hP
  rw [h] at this
  exact this.symm

/-- `_find_setting_reference(find, in_list)` is the index of the first element that *is* `find`, else -1 -/
theorem find_reference_index (find : Setting) (l : List Setting) :
    Gen.findSettingReference find l =
      match l.findIdx? (fun s => s.id == find.id) with
      | some i => (i : Int)
      | none => -1 := by
  unfold Gen.findSettingReference
  split
  · rename_i h
    rewrite [find_some (fun s => s.id == find.id) l (by intro s i; first | rfl | grind) h]
    rfl
  · rename_i h
    rewrite [find_none (fun s => s.id == find.id) l (by intro s i; first | rfl | grind) h]
    rfl

/-- THE MODEL'S `hasId` IS THE CODE'S `_find_setting_reference(...) >= 0` -/
theorem find_reference_is_code (find : Setting) (l : List Setting) :
    decide (Gen.findSettingReference find l ≥ 0) = hasId l find.id := by
  rw [find_reference_index]
  unfold hasId
  cases h2 : l.findIdx? (fun s => s.id == find.id) with
  | none =>
    rw [List.findIdx?_eq_none_iff] at h2
    have : l.any (fun s => s.id == find.id) = false := by
      rw [List.any_eq_false]; intro x hx; simp [h2 x hx]
    simp [this]
  | some j =>
    have : l.any (fun s => s.id == find.id) = true := by
      rw [List.any_eq_true]
      rw [List.findIdx?_eq_some_iff_getElem] at h2
      obtain ⟨hj, hp, _⟩ := h2
      exact ⟨l[j], List.getElem_mem _, hp⟩
    simp [this]

/-- the pairwise test of the generated loop, in any shape that agrees pointwise with `x.id == y.id` -/
private theorem same_all (a b : List Setting) {P : Setting × Setting → Bool}
    (hP : ∀ x y, P (x, y) = (x.id == y.id)) :
    (a.zip b).all P = (a.zip b).all (fun p => p.1.id == p.2.id) := by
  have : P = fun p => p.1.id == p.2.id := by funext ⟨x, y⟩; exact hP x y
  rw [this]

/-- the fixed normal form: same length and pairwise the same objects -/
private theorem same_core (a b : List Setting) :
    sameRefs a b = (a.length == b.length && (a.zip b).all (fun p => p.1.id == p.2.id)) := by
  unfold sameRefs
  induction a generalizing b with
  | nil => cases b <;> simp
  | cons x a ih =>
    cases b with
    | nil => simp
    | cons y b =>
      have := ih b
      simp only [List.length_cons, List.zip_cons_cons, List.all_cons, List.map_cons] at this ⊢
      rw [List.cons_beq_cons, this]
      cases x.id == y.id <;> simp

/-- THE MODEL'S `sameRefs` IS THE CODE'S `_same_setting_references`: same length and pairwise the same
    objects — so order matters (D22) and equal values do not suffice (D4) -/
theorem same_references_is_code (a b : List Setting) : Gen.sameSettingReferences a b = sameRefs a b := by
  unfold Gen.sameSettingReferences
  rewrite [same_all a b, same_core a b]
  · generalize (a.zip b).all (fun p => p.1.id == p.2.id) = t
    generalize a.length = n
    generalize b.length = m
    grind
  · intro x y
    first | rfl | grind

/-- inner collect loop, for any body `H` that agrees pointwise with the normal form -/
private theorem refs_inner (s : Setting) (i : Nat) (z : List (Setting × Nat))
    {H : Setting × Nat → Option (Nat × Nat)}
    (hH : ∀ s2 i2, H (s2, i2) = if s2.id == s.id then some (i, i2) else none) :
    z.filterMap H = (z.filter (fun (s2, _) => s2.id == s.id)).map (fun (_, i2) => (i, i2)) := by
  induction z with
  | nil => rfl
  | cons x z ih =>
    obtain ⟨s2, i2⟩ := x
    simp only [List.filterMap_cons, List.filter_cons, hH]
    cases s2.id == s.id <;> simp_all

/-- outer loop, for any body `G` that agrees pointwise with the model's inner expression -/
private theorem refs_outer (f l : List Setting) {G : Setting × Nat → List (Nat × Nat)}
    (hG : ∀ s i, G (s, i) =
      (l.zipIdx.filter (fun (s2, _) => s2.id == s.id)).map (fun (_, i2) => (i, i2))) :
    f.zipIdx.flatMap G = findRefs f l := by
  unfold findRefs
  rw [List.flatMap_def]
  congr 1
  apply List.map_congr_left
  rintro ⟨s, i⟩ _
  exact hG s i

/-- THE MODEL'S `findRefs` IS THE CODE'S `_find_settings_references` -/
theorem find_references_is_code (f l : List Setting) : Gen.findSettingsReferences f l = findRefs f l := by
  unfold Gen.findSettingsReferences
  apply refs_outer
  intro s i
  try dsimp only
  apply refs_inner
  intro s2 i2
  first | rfl | (dsimp only <;> first | rfl | grind) | grind

/-- equal values are not the same object; a different order is not the same list -/
example : Gen.sameSettingReferences [⟨1, "31".toList⟩] [⟨2, "31".toList⟩] = false := by decide
example : Gen.sameSettingReferences [⟨1, "31".toList⟩, ⟨2, "1".toList⟩] [⟨2, "1".toList⟩, ⟨1, "31".toList⟩] = false := by decide
example : Gen.findSettingReference ⟨2, "31".toList⟩ [⟨1, "31".toList⟩, ⟨2, "31".toList⟩] = 1 := by decide
example : Gen.findSettingsReferences [⟨7, "1".toList⟩, ⟨2, "31".toList⟩] [⟨2, "31".toList⟩, ⟨7, "1".toList⟩, ⟨2, "31".toList⟩] =
    [(0, 1), (1, 0), (1, 2)] := by decide

end C05c
