import AnsiModel.Concat
import AnsiModel.Generated.Wrappers
/-
  Property C05, part c — the identity helpers of `__iadd__`, from the source.

  `_find_setting_reference`, `_same_setting_references` and `_find_settings_references` decide *which
  object* a marker refers to; the seam logic of `+=` (and slicing, removal) stands on them, and the
  defects D4 and D22 were exactly here (`in` / `==` where `is` was meant; an order-insensitive
  comparison).  `Gen.findSettingReference`, `Gen.sameSettingReferences`, `Gen.findSettingsReferences`
  are these functions translated from the source on every run by loop idiom (harness/pylist.py:
  search loop, `all(… for … in zip(…))`, nested collect loop; `a is b` becomes `a.id == b.id`).
  The theorems tie them to the hand-written `hasId`, `sameRefs`, `findRefs` of the model.
-/
namespace C05c

/-- all three were translated (none fell outside the idioms) -/
theorem translated : Gen.findSettingReferenceOk = true ∧ Gen.sameSettingReferencesOk = true ∧
    Gen.findSettingsReferencesOk = true := by decide

private theorem find_zipIdx (p : Setting → Bool) (l : List Setting) (n : Nat) :
    ((l.zipIdx n).find? (fun x => p x.1)).map (·.2) = (l.findIdx? p).map (· + n) := by
  induction l generalizing n with
  | nil => simp
  | cons a l ih =>
    simp only [List.zipIdx_cons, List.find?_cons, List.findIdx?_cons]
    cases h : p a with
    | true => simp
    | false =>
      simp only [ih (n+1), Bool.false_eq_true, if_false, Option.map_map]
      congr 1
      funext i
      simp only [Function.comp_apply]; omega

/-- `_find_setting_reference(find, in_list)` is the index of the first element that *is* `find`, else -1 -/
theorem find_reference_index (find : Setting) (l : List Setting) :
    Gen.findSettingReference find l =
      match l.findIdx? (fun s => s.id == find.id) with
      | some i => (i : Int)
      | none => -1 := by
  have h := find_zipIdx (fun s => s.id == find.id) l 0
  unfold Gen.findSettingReference
  cases h1 : (l.zipIdx).find? (fun x => x.1.id == find.id) with
  | none =>
    rw [h1] at h
    cases h2 : l.findIdx? (fun s => s.id == find.id) with
    | none => simp_all
    | some j => simp [h2] at h
  | some x =>
    rw [h1] at h
    cases h2 : l.findIdx? (fun s => s.id == find.id) with
    | none => simp [h2] at h
    | some j =>
      obtain ⟨s, i⟩ := x
      simp [h2] at h
      simp_all

/-- THE MODEL'S `hasId` IS THE CODE'S `_find_setting_reference(...) >= 0` -/
theorem find_reference_is_code (find : Setting) (l : List Setting) :
    decide (Gen.findSettingReference find l ≥ 0) = hasId l find.id := by
  rw [find_reference_index]
  unfold hasId
  cases h2 : l.findIdx? (fun s => s.id == find.id) with
  | none =>
    rw [List.findIdx?_eq_none_iff] at h2
    have : l.any (fun s => s.id == find.id) = false := by
      rw [List.any_eq_false]; intro x hx; simp [h2 x hx]
    simp [this]
  | some j =>
    have : l.any (fun s => s.id == find.id) = true := by
      rw [List.any_eq_true]
      rw [List.findIdx?_eq_some_iff_getElem] at h2
      obtain ⟨hj, hp, _⟩ := h2
      exact ⟨l[j], List.getElem_mem _, hp⟩
    simp [this]

/-- THE MODEL'S `sameRefs` IS THE CODE'S `_same_setting_references`: same length and pairwise the same
    objects — so order matters (D22) and equal values do not suffice (D4) -/
theorem same_references_is_code (a b : List Setting) : Gen.sameSettingReferences a b = sameRefs a b := by
  unfold Gen.sameSettingReferences sameRefs
  induction a generalizing b with
  | nil => cases b <;> simp
  | cons x a ih =>
    cases b with
    | nil => simp
    | cons y b =>
      have := ih b
      simp only [List.length_cons, List.zip_cons_cons, List.all_cons, List.map_cons] at this ⊢
      rw [List.cons_beq_cons, ← this]
      cases x.id == y.id <;> simp

/-- THE MODEL'S `findRefs` IS THE CODE'S `_find_settings_references` -/
theorem find_references_is_code (f l : List Setting) : Gen.findSettingsReferences f l = findRefs f l := by
  unfold Gen.findSettingsReferences findRefs
  rw [List.flatMap_def]
  congr 1
  apply List.map_congr_left
  rintro ⟨s, i⟩ _
  simp only
  generalize l.zipIdx = z
  induction z with
  | nil => rfl
  | cons x z ih =>
    obtain ⟨s2, i2⟩ := x
    simp only [List.filterMap_cons, List.filter_cons]
    rw [Bool.beq_comm (a := s.id)]
    cases s2.id == s.id <;> simp_all

/-- equal values are not the same object; a different order is not the same list -/
example : Gen.sameSettingReferences [⟨1, "31".toList⟩] [⟨2, "31".toList⟩] = false := by decide
example : Gen.sameSettingReferences [⟨1, "31".toList⟩, ⟨2, "1".toList⟩] [⟨2, "1".toList⟩, ⟨1, "31".toList⟩] = false := by decide
example : Gen.findSettingReference ⟨2, "31".toList⟩ [⟨1, "31".toList⟩, ⟨2, "31".toList⟩] = 1 := by decide
example : Gen.findSettingsReferences [⟨7, "1".toList⟩, ⟨2, "31".toList⟩] [⟨2, "31".toList⟩, ⟨7, "1".toList⟩, ⟨2, "31".toList⟩] =
    [(0, 1), (1, 0), (1, 2)] := by decide

end C05c
