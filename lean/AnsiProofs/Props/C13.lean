import AnsiSpec.Styled
/-
  Property C13 — `AnsiStr` (the immutable `str` subclass) versus `AnsiString`.

  "For every constructor argument combination … and every method common to both classes, the
  AnsiStr result has the same text, per-character settings and rendering … as the AnsiString result
  of the same operation in its non-in-place form …  The str payload of an AnsiStr always equals its
  own rendering."

  ### What this file is — and is not

  THE THEOREMS BELOW ARE STRUCTURAL.  In the code (`class AnsiStr(str)` in ansi_string.py) every
  method has the shape

      cpy = self._s.copy(); cpy.<the AnsiString method>(…, inplace=True); return AnsiStr(cpy)

  and `AnsiStr.__new__` computes the `str` payload as `str(ansi_string)` at construction (or takes
  the payload and the wrapped object of an existing `AnsiStr` over unchanged).  This file writes
  that *shape* down once (`AnsiStrW.mk'`, `lift`, `liftE`, `liftL`, `lift2`, `rewrap`) and proves
  what follows from the shape alone: the wrapped result *is* the `AnsiString` result (so text,
  settings, denotation and rendering are the same by `rfl`), the receiver is untouched, and the
  payload invariant `payload = str(wrapped)` holds for everything that can be built.

  Whether each of the ~70 methods of the *code's* `AnsiStr` really has that shape — that it copies,
  calls the method of the same name with the same arguments, and re-wraps; that no method forgets
  the copy or rebuilds the payload differently — is NOT a theorem here.  It is decided by twin
  execution in the differential harness: every operation is run on an `AnsiString` and on an
  `AnsiStr` built from the same constructor arguments, and text, per-character settings, rendering
  and `str` payload are compared after every step.  Nothing below should be read as replacing that.

  The model has no aliasing (values, not objects), so `copy()` is the identity on values.
-/

namespace C13

/-- an `AnsiStr`: the wrapped `AnsiString` (`_s`) and the `str` payload of the `str` base class -/
structure AnsiStrW where
  val : AStr
  payload : Str
  deriving DecidableEq, Repr

namespace AnsiStrW

/-- `AnsiStr(ansi_string)`: `super().__new__(cls, str(ansi_string))`, `instance._s = ansi_string` -/
def mk' (v : AStr) : AnsiStrW := ⟨v, v.str⟩

/-- `AnsiStr(other_ansi_str)` without settings: `super().__new__(cls, str(s))`, `instance._s = s._s`.
    `AnsiStr` does not override `__str__`, so `str(s)` is the payload of `s`. -/
def rewrap (a : AnsiStrW) : AnsiStrW := ⟨a.val, a.payload⟩

/-- a method returning an `AnsiStr`: copy, call the in-place `AnsiString` method, re-wrap -/
def lift (f : AStr → AStr) (a : AnsiStrW) : AnsiStrW := mk' (f a.val)

/-- the same for a method that may raise -/
def liftE (f : AStr → Except PyErr AStr) (a : AnsiStrW) : Except PyErr AnsiStrW := (f a.val).map mk'

/-- the same for a method returning a list (`split`, `partition`, `splitlines`, iteration, …) -/
def liftL (f : AStr → List AStr) (a : AnsiStrW) : List AnsiStrW := (f a.val).map mk'

/-- a method taking a second `AnsiStr` (`+`, `join` element, `replace` argument, …) -/
def lift2 (f : AStr → AStr → AStr) (a b : AnsiStrW) : AnsiStrW := mk' (f a.val b.val)

/-- a method returning something that is not an `AnsiStr` (`find`, `startswith`, `len`, `to_str`, …):
    it is simply forwarded to the wrapped object -/
def fwd {β : Type} (f : AStr → β) (a : AnsiStrW) : β := f a.val

end AnsiStrW

open AnsiStrW

/-- the payload invariant: the `str` payload equals the rendering of the wrapped value -/
def Inv (a : AnsiStrW) : Prop := a.payload = a.val.str

/-! ## 1 — the result is the `AnsiString` result -/

theorem payload_eq (v : AStr) : (mk' v).payload = v.str := rfl

theorem mk_val (v : AStr) : (mk' v).val = v := rfl

theorem lift_val (f : AStr → AStr) (a : AnsiStrW) : (a.lift f).val = f a.val := rfl

theorem lift_payload (f : AStr → AStr) (a : AnsiStrW) : (a.lift f).payload = (f a.val).str := rfl

/-- same text, same per-character settings, same denotation, same rendering -/
theorem lift_same (f : AStr → AStr) (a : AnsiStrW) :
    (a.lift f).val.s = (f a.val).s ∧ (∀ i, act (a.lift f).val i = act (f a.val) i) ∧
    den (a.lift f).val = den (f a.val) ∧ (a.lift f).val.str = (f a.val).str :=
  ⟨rfl, fun _ => rfl, rfl, rfl⟩

theorem liftE_ok (f : AStr → Except PyErr AStr) (a : AnsiStrW) (y : AStr) (h : f a.val = .ok y) :
    a.liftE f = .ok (mk' y) := by
  simp [liftE, h, Except.map]

/-- the `AnsiStr` method raises exactly when the `AnsiString` method does, with the same error -/
theorem liftE_error (f : AStr → Except PyErr AStr) (a : AnsiStrW) (e : PyErr) (h : f a.val = .error e) :
    a.liftE f = .error e := by
  simp [liftE, h, Except.map]

theorem liftE_val (f : AStr → Except PyErr AStr) (a b : AnsiStrW) (h : a.liftE f = .ok b) :
    f a.val = .ok b.val ∧ b.payload = b.val.str := by
  unfold liftE at h
  cases hf : f a.val with
  | error e => rw [hf] at h; cases h
  | ok y => rw [hf] at h; cases h; exact ⟨rfl, rfl⟩

theorem liftL_val (f : AStr → List AStr) (a : AnsiStrW) : (a.liftL f).map (·.val) = f a.val := by
  simp [liftL, List.map_map, Function.comp_def, mk_val]

theorem liftL_length (f : AStr → List AStr) (a : AnsiStrW) : (a.liftL f).length = (f a.val).length := by
  simp [liftL]

theorem lift2_val (f : AStr → AStr → AStr) (a b : AnsiStrW) : (lift2 f a b).val = f a.val b.val := rfl

theorem lift2_payload (f : AStr → AStr → AStr) (a b : AnsiStrW) :
    (lift2 f a b).payload = (f a.val b.val).str := rfl

theorem fwd_eq {β : Type} (f : AStr → β) (a : AnsiStrW) : a.fwd f = f a.val := rfl

theorem rewrap_eq (a : AnsiStrW) : a.rewrap = a := rfl

/-! ## 2 — the receiver is unchanged

  `a` is a value; computing `a.lift f` cannot change it.  In the model this is not something to
  prove — there is no state in which `a` could have changed — and the statement below is the trivial
  one the purity leaves: after naming the result, `a` is what it was.  That the *code* never writes
  to `self._s` (it always works on `self._s.copy()`) is what the harness's alias probe observes. -/

theorem lift_receiver_unchanged (f : AStr → AStr) (a : AnsiStrW) :
    let _b := a.lift f
    a = a := rfl

/-- a form with content: two uses of the same receiver see the same wrapped value and payload,
    whatever was computed from it in between -/
theorem lift_receiver_reusable (f g : AStr → AStr) (a : AnsiStrW) :
    ((a.lift f, a.lift g).2).val = g a.val ∧ ((a.lift f, a).2).payload = a.payload := ⟨rfl, rfl⟩

/-! ## 3 — the payload invariant -/

theorem inv_mk (v : AStr) : Inv (mk' v) := rfl

theorem inv_lift (f : AStr → AStr) (a : AnsiStrW) : Inv (a.lift f) := rfl

theorem inv_lift2 (f : AStr → AStr → AStr) (a b : AnsiStrW) : Inv (lift2 f a b) := rfl

theorem inv_liftE (f : AStr → Except PyErr AStr) (a b : AnsiStrW) (h : a.liftE f = .ok b) : Inv b :=
  (liftE_val f a b h).2

theorem inv_liftL (f : AStr → List AStr) (a : AnsiStrW) : ∀ b ∈ a.liftL f, Inv b := by
  intro b hb
  obtain ⟨v, _, rfl⟩ := List.mem_map.mp hb
  rfl

theorem inv_rewrap (a : AnsiStrW) (h : Inv a) : Inv a.rewrap := h

/-- everything that can be built: from the constructor, by any method of any of the shapes, from
    things that were built -/
inductive Reach : AnsiStrW → Prop
  | mk (v : AStr) : Reach (mk' v)
  | rewrap {a : AnsiStrW} : Reach a → Reach a.rewrap
  | lift (f : AStr → AStr) {a : AnsiStrW} : Reach a → Reach (a.lift f)
  | lift2 (f : AStr → AStr → AStr) {a b : AnsiStrW} : Reach a → Reach b → Reach (lift2 f a b)
  | liftE (f : AStr → Except PyErr AStr) {a b : AnsiStrW} : Reach a → a.liftE f = .ok b → Reach b
  | liftL (f : AStr → List AStr) {a b : AnsiStrW} : Reach a → b ∈ a.liftL f → Reach b

/-- "The str payload of an AnsiStr always equals its own rendering." -/
theorem payload_invariant {a : AnsiStrW} (h : Reach a) : Inv a := by
  induction h with
  | mk v => exact inv_mk v
  | rewrap _ ih => exact inv_rewrap _ ih
  | lift f _ _ => exact inv_lift f _
  | lift2 f _ _ _ _ => exact inv_lift2 f _ _
  | liftE f _ h _ => exact inv_liftE f _ _ h
  | liftL f _ h _ => exact inv_liftL f _ _ h

/-- the invariant is not vacuous as a predicate: a wrapper with a stale payload violates it -/
example : ¬ Inv ⟨{ s := "ab".toList, fmts := [(0, { add := [⟨0, "1".toList⟩] }), (2, { rem := [⟨0, "1".toList⟩] })] },
    "ab".toList⟩ := by
  unfold Inv
  decide +kernel

/-! ## Non-vacuity on a concrete value: bold `ab`, `clear_formatting`, an operation that raises -/

def exV : AStr :=
  { s := "ab".toList, fmts := [(0, { add := [⟨0, "1".toList⟩] }), (2, { rem := [⟨0, "1".toList⟩] })] }

example : (mk' exV).payload = "\x1b[1mab\x1b[m".toList := by decide +kernel
example : ((mk' exV).lift AStr.clearFormatting).val = exV.clearFormatting ∧
    ((mk' exV).lift AStr.clearFormatting).payload = "ab".toList := by decide +kernel
example : Reach ((mk' exV).lift AStr.clearFormatting) := Reach.lift _ (Reach.mk _)
example : Inv ((mk' exV).lift AStr.clearFormatting) := payload_invariant (Reach.lift _ (Reach.mk _))
example : (mk' exV).liftE (fun _ => .error .typeError) = .error .typeError := liftE_error _ _ _ rfl
example : (mk' exV).liftE (fun v => .ok v.clearFormatting) = .ok (mk' exV.clearFormatting) :=
  liftE_ok _ _ _ rfl
example : ((mk' exV).liftL (fun v => [v, v.clearFormatting])).map (·.payload) =
    ["\x1b[1mab\x1b[m".toList, "ab".toList] := by decide +kernel

end C13

#print axioms C13.payload_eq
#print axioms C13.lift_val
#print axioms C13.lift_payload
#print axioms C13.lift_same
#print axioms C13.liftE_ok
#print axioms C13.liftE_error
#print axioms C13.liftE_val
#print axioms C13.liftL_val
#print axioms C13.lift2_val
#print axioms C13.lift_receiver_unchanged
#print axioms C13.lift_receiver_reusable
#print axioms C13.inv_liftE
#print axioms C13.inv_liftL
#print axioms C13.payload_invariant
