import AnsiProofs.Props.C16
import AnsiModel.Generated.Wrappers
/-
  Property C16, part b — the loops of `format_matching` / `unformat_matching`, from the source.

  C16.lean states the property over the model's `formatMatching` / `unformatMatching`, which are
  *defined* as a fold of `apply_formatting` / `remove_formatting` over `takeCount count spans`.
  This file closes the gap to the code's loop:

  * `Gen.formatMatchingLoop`, `Gen.unformatMatchingLoop`, `Gen.applyForMatch` are regenerated on
    every run from the AST of the three methods; `loops_as_modelled` proves they are the loops the
    model was written from (what `re.finditer` is called on, the test, the call, the `count`
    bookkeeping);
  * `runMatchLoop_eq_fold` proves that the literal loop — mutable `count`, decrement when
    positive, `break` otherwise — is the fold over the first `count` (all, if negative) matches;
  * `format_matching_loop`, `unformat_matching_loop` put the two together.
-/
namespace C16b
open Wrap

/-- THE LOOP IS THE FOLD over `takeCount`: for any per-match step, any `count`, any matches.
    (`elseBreak` does not matter: once `count` is 0 it stays 0.) -/
theorem runMatchLoop_eq_fold {X E : Type} (eb : Bool) (step : X → Int × Int → Except E X) :
    ∀ (spans : List (Int × Int)) (count : Int) (x : X),
      runMatchLoop true eb step count spans x = (takeCount count spans).foldlM step x
  | [], count, x => by
    unfold takeCount; split <;> simp [runMatchLoop, List.foldlM, pure, Except.pure]
  | s :: rest, count, x => by
    unfold runMatchLoop
    by_cases hneg : count < 0
    · have hc : (count < 0 ∨ count > 0) := Or.inl hneg
      have hdec : (true && decide (count > 0)) = false := by simp; omega
      rw [if_pos hc, hdec]
      simp only [Bool.false_eq_true, if_false]
      have ht : takeCount count (s :: rest) = s :: takeCount count rest := by simp [takeCount, hneg]
      rw [ht, List.foldlM_cons]
      cases hs : step x s with
      | error e => rfl
      | ok x' => exact runMatchLoop_eq_fold eb step rest count x'
    · by_cases hpos : count > 0
      · have hc : (count < 0 ∨ count > 0) := Or.inr hpos
        have hdec : (true && decide (count > 0)) = true := by simp; omega
        rw [if_pos hc, hdec]
        simp only [if_true]
        have ht : takeCount count (s :: rest) = s :: takeCount (count - 1) rest := by
          unfold takeCount
          have h1 : ¬ count < 0 := hneg
          have h2 : ¬ count - 1 < 0 := by omega
          rw [if_neg h1, if_neg h2]
          have : count.toNat = (count - 1).toNat + 1 := by omega
          rw [this, List.take_succ_cons]
        rw [ht, List.foldlM_cons]
        cases hs : step x s with
        | error e => rfl
        | ok x' => exact runMatchLoop_eq_fold eb step rest (count - 1) x'
      · have h0 : count = 0 := by omega
        subst h0
        have hc : ¬ ((0 : Int) < 0 ∨ (0 : Int) > 0) := by omega
        rw [if_neg hc]
        have ht : takeCount 0 (s :: rest) = [] := by simp [takeCount]
        cases eb with
        | true => simp [ht, pure, Except.pure]
        | false =>
          simp only [Bool.false_eq_true, if_false]
          rw [runMatchLoop_eq_fold false step rest 0 x, ht]
          simp [takeCount]

/-- without the decrement the loop would format *every* match for a positive `count` — the
    bookkeeping is not redundant -/
theorem without_decrement_differs :
    runMatchLoop (E := Unit) false true (fun (n : Nat) _ => .ok (n + 1)) 1 [(0, 1), (2, 3)] 0 = .ok 2 ∧
    runMatchLoop (E := Unit) true true (fun (n : Nat) _ => .ok (n + 1)) 1 [(0, 1), (2, 3)] 0 = .ok 1 := by
  constructor <;> simp [runMatchLoop]

/-- THE CODE'S LOOPS ARE THE ONES MODELLED (regenerated from the source on every run):
    both escape the spec unless `regex`, iterate `re.finditer(matchspec, self._s, IGNORECASE unless
    match_case)` — the matches are searched in the object's own base text —, test
    `count < 0 or count > 0`, decrement a positive count, and break otherwise;
    `format_matching` calls `apply_formatting_for_match(format, match)`, which is
    `apply_formatting(settings, match.start(group), match.end(group))` with `group=0`, topmost;
    `unformat_matching` first turns "no format / `None` among them" into `None` and calls
    `remove_formatting(format, match.start(0), match.end(0))`. -/
theorem loops_as_modelled :
    Gen.formatMatchingLoop = some
      { escapeUnlessRegex := true, noneMeansAll := false, matchVar := "match",
        finditerArgs := ["matchspec", "self._s", "re.IGNORECASE if not match_case else 0"],
        perMatchTest := "count < 0 or count > 0", stepTarget := "apply_formatting_for_match",
        stepArgs := [("settings", .param "format"), ("match_object", .other "match"), ("group", .dflt "0")],
        decrement := true, elseBreak := true } ∧
    Gen.unformatMatchingLoop = some
      { escapeUnlessRegex := true, noneMeansAll := true, matchVar := "match",
        finditerArgs := ["matchspec", "self._s", "re.IGNORECASE if not match_case else 0"],
        perMatchTest := "count < 0 or count > 0", stepTarget := "remove_formatting",
        stepArgs := [("settings", .param "format"), ("start", .other "match.start(0)"), ("end", .other "match.end(0)")],
        decrement := true, elseBreak := true } ∧
    Gen.applyForMatch = some ("apply_formatting",
      [("settings", .param "settings"), ("start", .other "match_object.start(group)"),
       ("end", .other "match_object.end(group)"), ("topmost", .dflt "True")]) := by
  decide +kernel

/-- `format_matching`: the literal loop with the modelled step is the model's `formatMatching` -/
theorem format_matching_loop (x : AStr) (a : SArg) (spans : List (Int × Int)) (count : Int) (eb : Bool) :
    runMatchLoop true eb
      (fun (acc : AStr) (se : Int × Int) => acc.applyRaw acc.fmts.nextId a (some se.1) (some se.2) true)
      count spans x = x.formatMatching a spans count := by
  rw [runMatchLoop_eq_fold]; rfl

/-- `unformat_matching` likewise -/
theorem unformat_matching_loop (x : AStr) (a : Option SArg) (spans : List (Int × Int)) (count : Int) (eb : Bool) :
    runMatchLoop true eb
      (fun (acc : AStr) (se : Int × Int) => acc.removeRaw a (some se.1) (some se.2))
      count spans x = x.unformatMatching a spans count := by
  rw [runMatchLoop_eq_fold]; rfl

end C16b
